import GldapModel.Directory.Bind
/-! # C19 - test directory: a bind succeeds only with the right credentials -/
namespace Directory
open Ber Gldap Gldap.Generated

/-- success iff (empty password and anonymous binds allowed) or the DN is exactly the DN of a
    user entry whose first password value equals the password - for EVERY user list (DNs that are
    prefixes of one another, duplicates, no password attribute, empty passwords), DN, password
    and setting of AllowAnonymousBind -/
theorem C19_bind_iff (users : List Entry) (allowAnon : Bool) (dn pw : Bytes) :
    handleBind users allowAnon dn pw = 0 ↔
      (pw = [] ∧ allowAnon = true) ∨
      ∃ u ∈ users, u.dn = dn ∧ (getAttributeValues u passwordAttr).head? = some pw := by
  unfold handleBind
  by_cases h1 : (pw.isEmpty && allowAnon) = true
  · simp only [h1, if_true, ResultSuccess, true_iff]
    left
    simpa using h1
  · simp only [h1, if_false, Bool.false_eq_true]
    have hn : ¬ (pw = [] ∧ allowAnon = true) := by simpa using h1
    by_cases h2 : users.any (userAccepts dn pw) = true
    · simp only [h2, if_true, ResultSuccess, true_iff]
      right
      obtain ⟨u, hu, ha⟩ := List.any_eq_true.mp h2
      refine ⟨u, hu, ?_⟩
      simp only [userAccepts, Bool.and_eq_true, beq_iff_eq] at ha
      refine ⟨ha.1, ?_⟩
      cases hv : getAttributeValues u passwordAttr with
      | nil => simp [hv] at ha
      | cons v vs => simp [hv] at ha ⊢; exact ha.2
    · simp only [h2, if_false, Bool.false_eq_true, ResultInvalidCredentials]
      constructor
      · intro h; cases h
      · rintro (h | ⟨u, hu, hd, hp⟩)
        · exact absurd h hn
        · exfalso
          apply h2
          apply List.any_eq_true.mpr
          refine ⟨u, hu, ?_⟩
          simp only [userAccepts, Bool.and_eq_true, beq_iff_eq]
          refine ⟨hd, ?_⟩
          cases hv : getAttributeValues u passwordAttr with
          | nil => simp [hv] at hp
          | cons v vs => simp [hv] at hp ⊢; exact hp

/-- every other bind returns invalidCredentials -/
theorem C19_otherwise_invalid (users : List Entry) (allowAnon : Bool) (dn pw : Bytes) :
    handleBind users allowAnon dn pw = 0 ∨ handleBind users allowAnon dn pw = 49 := by
  unfold handleBind
  split
  · left; rfl
  · split
    · left; rfl
    · right; rfl

/-- a DN that is only a prefix / extension of a user's DN never binds -/
example : handleBind [⟨[99, 110, 61, 97], [⟨passwordAttr, [[112]], [[112]]⟩]⟩] false [99, 110, 61, 97, 98] [112] = 49 := by decide
example : handleBind [⟨[99, 110, 61, 97], [⟨passwordAttr, [[112]], [[112]]⟩]⟩] false [99, 110, 61, 97] [112] = 0 := by decide
/-- an empty password only binds when anonymous binds are allowed or the stored password is empty -/
example : handleBind [⟨[99], [⟨passwordAttr, [[112]], [[112]]⟩]⟩] false [99] [] = 49 := by decide

end Directory
