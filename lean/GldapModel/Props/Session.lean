import GldapModel.Gldap.Session
import GldapModel.Props.C01
import GldapModel.Props.C03
import GldapModel.Props.C04
import GldapModel.Props.C05
import GldapModel.Proofs.ParseConsumes
import GldapModel.Proofs.ParseExtend
/-! # End to end: from the bytes a client sends on a connection to the bytes it reads back

Composition of C01 (decoding), C03 (routing), C04 (responses) and the byte-level half of C10
(nothing after an Unbind) over the sequential connection model `Gldap.Session.session`. The
statements are about arbitrary route tables, handler scripts, request sequences and whatever
bytes follow them. Stream `session` replays the same sequences against a real server. -/
namespace Gldap.Session
open Ber Spec Gldap Gldap.Generated

def _root_.Spec.RView.messageID : RView → Int
  | .result id .. => id
  | .entry id .. => id

def _root_.Spec.RView.tag : RView → Nat
  | .result _ t .. => t
  | .entry .. => 4

theorem viewOfResp_messageID (r : Resp) : (viewOfResp r).messageID = r.messageID := by
  unfold viewOfResp
  cases r.kind <;> rfl

/-! ### what a frame-by-frame client sends -/

/-- the wire image of a request sequence -/
def wire (tt : UInt8) (rs : List CReq) : Bytes := serAll (rs.map (clientEncode tt))

def _root_.Spec.CReq.isUnbind : CReq → Bool
  | .unbind _ => true
  | _ => false

/-- every request of the list is one the property quantifies over, encodes within the BER
    reader's limits, and (searches) carries a filter go-ldap decompiles to `dec r` -/
structure Sendable (env : Env) (tt : UInt8) (dec : CReq → Bytes) (r : CReq) : Prop where
  wf : r.WF
  ber : (clientEncode tt r).WF env.ext
  filter : ∀ id base sc de sz tm ty f attrs ctls, r = .search id base sc de sz tm ty f attrs ctls →
    env.decompile f = some (dec r)

theorem expected_isUnbind (d : Bytes) (r : CReq) : (expected d r).isUnbind = r.isUnbind := by
  cases r <;> rfl

theorem expected_id (d : Bytes) (r : CReq) : (expected d r).id = (match r with
    | .bind id .. => id | .search id .. => id | .extended id _ => id | .modify id .. => id
    | .add id .. => id | .delete id .. => id | .unbind id => id) := by
  cases r <;> rfl

theorem ser_append_not_empty (n : Node) (rest : Bytes) : (ser n ++ rest).isEmpty = false := by
  have := ser_length_ge_two n
  cases h : ser n ++ rest with
  | nil =>
    have h2 : (ser n ++ rest).length = 0 := by rw [h]; rfl
    rw [List.length_append] at h2; omega
  | cons _ _ => rfl

theorem frameRest_ser (env : Env) (n : Node) (rest : Bytes) (hw : n.WF env.ext) :
    frameRest env (ser n ++ rest) = rest := by
  simp [frameRest, readPacket_ser env.ext n rest hw]

/-- one step of the read loop on a request the client sent, whatever follows it -/
theorem session_cons (env : Env) (table) (g : Guards) (cfg : Cfg) (tt : UInt8) (htt : tt ≠ 0)
    (dec : CReq → Bytes) (r : CReq) (hs : Sendable env tt dec r) (hu : r.isUnbind = false)
    (fuel : Nat) (rest : Bytes) :
    session env table g cfg (fuel + 1) (ser (clientEncode tt r) ++ rest) =
      (respond table g cfg (expected (dec r) r) ++ (session env table g cfg fuel rest).1,
       (session env table g cfg fuel rest).2) := by
  have hd := C01_roundtrip env g tt htt r hs.wf hs.ber (dec r) rest hs.filter
  have hne := ser_append_not_empty (clientEncode tt r) rest
  have hu' : (expected (dec r) r).isUnbind = false := by rw [expected_isUnbind, hu]
  rw [session]
  simp only [hne, hd, hu', frameRest_ser env _ rest hs.ber]
  simp

/-- **Every request is answered, in order, by the route table's choice.** A client that sends
    the requests `rs` (none of them an Unbind) followed by anything at all: the connection
    writes, for each request in order, exactly the frames `respond` describes for the message
    C01 says the handler receives - then goes on with whatever follows. -/
theorem session_requests (env : Env) (table) (g : Guards) (cfg : Cfg) (tt : UInt8) (htt : tt ≠ 0)
    (dec : CReq → Bytes) (rs : List CReq) (hs : ∀ r ∈ rs, Sendable env tt dec r)
    (hu : ∀ r ∈ rs, r.isUnbind = false) (fuel : Nat) (tail : Bytes) :
    session env table g cfg (rs.length + fuel) (wire tt rs ++ tail) =
      (rs.flatMap (fun r => respond table g cfg (expected (dec r) r)) ++ (session env table g cfg fuel tail).1,
       (session env table g cfg fuel tail).2) := by
  induction rs with
  | nil => simp [wire, serAll]
  | cons r rs ih =>
    have ih' := ih (fun x hx => hs x (by simp [hx])) (fun x hx => hu x (by simp [hx]))
    have h1 : (r :: rs).length + fuel = (rs.length + fuel) + 1 := by simp; omega
    simp only [wire, List.map_cons, serAll] at ih' ⊢
    rw [h1, List.append_assoc, session_cons env table g cfg tt htt dec r (hs r (by simp)) (hu r (by simp)), ih']
    simp [List.append_assoc]

/-- the whole conversation of a client that sends `rs` and then closes its side -/
theorem session_complete (env : Env) (table) (g : Guards) (cfg : Cfg) (tt : UInt8) (htt : tt ≠ 0)
    (dec : CReq → Bytes) (rs : List CReq) (hs : ∀ r ∈ rs, Sendable env tt dec r)
    (hu : ∀ r ∈ rs, r.isUnbind = false) (fuel : Nat) :
    session env table g cfg (rs.length + fuel) (wire tt rs) =
      (rs.flatMap (fun r => respond table g cfg (expected (dec r) r)), .eof) := by
  have h := session_requests env table g cfg tt htt dec rs hs hu fuel []
  simp only [List.append_nil] at h
  rw [h]
  cases fuel <;> simp [session]

/-- **Nothing after an Unbind is served (C10, at the level of bytes).** Whatever follows an
    Unbind request on the stream - further well-formed requests, garbage, a half frame - the
    connection writes what the optional unbind handler writes and nothing else; the bytes after
    the Unbind are never even looked at. -/
theorem session_unbind (env : Env) (table) (g : Guards) (cfg : Cfg) (tt : UInt8) (htt : tt ≠ 0)
    (id : Int) (hid : Int64 id) (hber : (clientEncode tt (.unbind id)).WF env.ext) (fuel : Nat) (rest : Bytes) :
    session env table g cfg (fuel + 1) (ser (clientEncode tt (.unbind id)) ++ rest) =
      (respondUnbind g cfg id, .unbind) := by
  have hd := C01_roundtrip env g tt htt (.unbind id) hid hber [] rest (by intros; contradiction)
  have hne := ser_append_not_empty (clientEncode tt (.unbind id)) rest
  rw [session]
  simp only [hne, hd]
  simp [expected, Msg.isUnbind, Msg.id]

/-- requests, then an Unbind, then anything: the answers to the requests, the unbind handler's
    frames, and the end. In particular the result does not depend on `rest`. -/
theorem session_requests_then_unbind (env : Env) (table) (g : Guards) (cfg : Cfg) (tt : UInt8) (htt : tt ≠ 0)
    (dec : CReq → Bytes) (rs : List CReq) (hs : ∀ r ∈ rs, Sendable env tt dec r)
    (hu : ∀ r ∈ rs, r.isUnbind = false) (id : Int) (hid : Int64 id)
    (hber : (clientEncode tt (.unbind id)).WF env.ext) (fuel : Nat) (rest : Bytes) :
    session env table g cfg (rs.length + (fuel + 1)) (wire tt rs ++ (ser (clientEncode tt (.unbind id)) ++ rest)) =
      (rs.flatMap (fun r => respond table g cfg (expected (dec r) r)) ++ respondUnbind g cfg id, .unbind) := by
  rw [session_requests env table g cfg tt htt dec rs hs hu (fuel + 1),
    session_unbind env table g cfg tt htt id hid hber fuel rest]

/-- the frames of a session are those of the requests it decodes, request by request -/
theorem session_frames (env : Env) (table) (g : Guards) (cfg : Cfg) (fuel : Nat) (bs : Bytes) :
    (session env table g cfg fuel bs).1 = (sessionMsgs env g fuel bs).flatMap (framesFor table g cfg) := by
  induction fuel generalizing bs with
  | zero => simp [session, sessionMsgs]
  | succ fuel ih =>
    rw [session, sessionMsgs]
    by_cases hb : bs.isEmpty = true
    · simp [hb]
    · simp only [hb]
      cases hs : serveFrame env g bs with
      | err => simp
      | panic => simp
      | ok msg =>
        by_cases hu : msg.isUnbind = true
        · simp [hu, framesFor]
        · simp [hu, framesFor, ih]

/-! ### every frame carries the message id of the request it answers -/

theorem construct_id (g : Guards) (mid : Int) (c : Ctor) (opts : List ROpt) (r : Resp)
    (h : construct g mid c opts = .ok r) : r.messageID = mid := by
  cases c <;> simp [construct, newResponse, newBindResponse, newExtendedResponse, newSearchDoneResponse,
    newSearchResponseEntry, codeOnly, baseResp] at h
  all_goals first
    | (subst h; rfl)
    | (simp only [newModifyResponse] at h
       split at h
       · split at h
         · injection h with h; subst h; rfl
         · contradiction
       · injection h with h; subst h; rfl)

theorem build_id (g : Guards) (mid : Int) (s : RespSpec) (r : Resp) (h : build g mid s = .ok r) :
    r.messageID = mid := by
  unfold build at h
  cases hc : construct g mid s.ctor s.opts with
  | ok r0 =>
    simp [hc] at h
    subst h
    rw [applySets_messageID]
    exact construct_id g mid s.ctor s.opts r0 hc
  | err => simp [hc] at h
  | panic => simp [hc] at h

theorem runScript_ids (g : Guards) (mid : Int) (sc : List RespSpec) :
    ∀ r ∈ runScript g mid sc, r.messageID = mid := by
  induction sc with
  | nil => simp [runScript]
  | cons s rest ih =>
    intro r hr
    unfold runScript at hr
    cases hb : build g mid s with
    | ok r0 =>
      simp [hb] at hr
      rcases hr with rfl | hr
      · exact build_id g mid s _ hb
      · exact ih r hr
    | err => simp [hb] at hr
    | panic => simp [hb] at hr

/-- **Whatever route is taken - a handler's responses, the default route's, or gldap's own
    refusal - every response written for a request carries that request's message id.** -/
theorem respond_ids (table) (g : Guards) (cfg : Cfg) (msg : Msg) :
    ∀ r ∈ respondR table g cfg msg, r.messageID = msg.id := by
  intro r hr
  simp only [respondR, List.mem_flatMap] at hr
  obtain ⟨e, he, hr⟩ := hr
  cases e with
  | invoke h => exact runScript_ids g msg.id _ r hr
  | refuse id tag code =>
    simp only [effectResps, List.mem_singleton] at hr
    subst hr
    -- the id in the effect is the request's id (mux.go builds the refusal from the request)
    simp only [serve] at he
    cases hl : serveLoop (Mux.build cfg.regs).routes msg with
    | some es =>
      simp only [hl] at he
      obtain ⟨i, hi, hes, _, _⟩ := serveLoop_some _ msg es hl
      subst hes
      simp at he
    | none =>
      simp only [hl] at he
      cases hd : (Mux.build cfg.regs).dflt with
      | some h => simp [hd] at he
      | none =>
        simp [hd] at he
        obtain ⟨rfl, _, _⟩ := he
        simp [refusal, newResponse, baseResp]

/-- ... and so does the client, reading the frames from the wire: the k-th frame of the answer
    to a request parses as one LDAPMessage whose message id is the request's -/
theorem respond_wire_ids (ext : Nat → Bytes → Bool) (table) (g : Guards) (cfg : Cfg) (msg : Msg)
    (r : Resp) (hr : r ∈ respondR table g cfg msg) (hw : r.WF) (hber : (packetOf r).WF ext) (rest : Bytes) :
    (readPacket ext (responseBytes r ++ rest)).map (fun p => ((readResponse ext p.1).map (·.messageID), p.2)) =
      some (some msg.id, rest) := by
  have h := C04_wire ext r hw hber rest
  have hid := respond_ids table g cfg msg r hr
  cases hp : readPacket ext (responseBytes r ++ rest) with
  | none => simp [hp] at h
  | some p =>
    simp only [hp, Option.map_some, Option.some.injEq, Prod.mk.injEq] at h ⊢
    obtain ⟨h1, h2⟩ := h
    simp [h1, h2, viewOfResp_messageID, hid]


/-! ### the frame budget is immaterial -/

theorem frameRest_len (env : Env) (g : Guards) (bs : Bytes) (msg : Msg) (h : serveFrame env g bs = .ok msg) :
    (frameRest env bs).length + 2 ≤ bs.length := by
  unfold serveFrame at h
  unfold frameRest
  cases hp : readPacket env.ext bs with
  | none => simp [hp] at h
  | some pr =>
    obtain ⟨p, r⟩ := pr
    exact readPacket_len env.ext bs p r hp

/-- any frame budget above the length of the stream gives the same session: the reader takes at
    least two bytes per frame, so the budget never runs out before the stream does -/
theorem session_fuel (env : Env) (table) (g : Guards) (cfg : Cfg) (f1 f2 : Nat) (bs : Bytes)
    (h1 : bs.length < f1) (h2 : bs.length < f2) :
    session env table g cfg f1 bs = session env table g cfg f2 bs := by
  induction f1 generalizing bs f2 with
  | zero => omega
  | succ f1 ih =>
    cases f2 with
    | zero => omega
    | succ f2 =>
      rw [session, session]
      by_cases hb : bs.isEmpty = true
      · simp [hb]
      · simp only [hb]
        cases hs : serveFrame env g bs with
        | err => rfl
        | panic => rfl
        | ok msg =>
          have hl := frameRest_len env g bs msg hs
          by_cases hu : msg.isUnbind = true
          · simp [hu]
          · simp only [hu]
            rw [ih f2 (frameRest env bs) (by omega) (by omega)]


/-! ### sessions compose along the stream, whatever the encoding of the frames -/

/-- reading and decoding the first frame of a stream does not depend on what follows it -/
theorem serveFrame_ext (env : Env) (g : Guards) (bs t : Bytes) (msg : Msg) (h : serveFrame env g bs = .ok msg) :
    serveFrame env g (bs ++ t) = .ok msg ∧ frameRest env (bs ++ t) = frameRest env bs ++ t := by
  unfold serveFrame at h
  cases hp : readPacket env.ext bs with
  | none => simp [hp] at h
  | some pr =>
    obtain ⟨p, r⟩ := pr
    have he := readPacket_ext env.ext bs t p r hp
    constructor
    · unfold serveFrame
      simp only [hp] at h
      simp only [he]
      exact h
    · simp [frameRest, hp, he]

/-- **A connection's answers to a stream are the answers to its first part followed by the
    answers to the rest** - for every byte stream the reader accepts frame after frame
    (canonical or not: indefinite lengths, padded lengths, anything), not only for the encoder's
    image as in `session_requests`. `a` is a part of the stream that is consumed completely and
    ends between two frames; `b` is whatever comes next. -/
theorem session_append (env : Env) (table) (g : Guards) (cfg : Cfg) (f : Nat) (a : Bytes) (o : List Bytes)
    (ha : session env table g cfg f a = (o, .eof)) (hf : a.length < f) (b : Bytes) (fb : Nat) (hb : b.length < fb) :
    session env table g cfg (f + fb) (a ++ b) =
      (o ++ (session env table g cfg fb b).1, (session env table g cfg fb b).2) := by
  induction f generalizing a o with
  | zero => omega
  | succ f ih =>
    by_cases hemp : a.isEmpty = true
    · have ha0 : a = [] := by simpa using hemp
      subst ha0
      rw [session] at ha
      simp at ha
      subst ha
      simp only [List.nil_append]
      rw [session_fuel env table g cfg (f + 1 + fb) fb b (by omega) hb]
    · rw [session] at ha
      simp only [hemp] at ha
      cases hs : serveFrame env g a with
      | err => simp [hs] at ha
      | panic => simp [hs] at ha
      | ok msg =>
        simp only [hs] at ha
        by_cases hu : msg.isUnbind = true
        · simp [hu] at ha
        · simp only [hu] at ha
          have hl := frameRest_len env g a msg hs
          obtain ⟨hx1, hx2⟩ := serveFrame_ext env g a b msg hs
          have hne : (a ++ b).isEmpty = false := by
            cases a with
            | nil => simp at hemp
            | cons x xs => rfl
          have hfe : f + 1 + fb = (f + fb) + 1 := by omega
          rw [hfe, session]
          simp only [hne, hx1, hu, hx2]
          cases hr : session env table g cfg f (frameRest env a) with
          | mk o' e' =>
            rw [hr] at ha
            have ho : respond table g cfg msg ++ o' = o := congrArg Prod.fst ha
            have he : e' = Ending.eof := congrArg Prod.snd ha
            subst ho; subst he
            rw [ih (frameRest env a) o' hr (by omega)]
            simp [List.append_assoc]

/-! ### gldap's own code never crashes a session (C02 along the whole stream) -/

/-- whatever bytes arrive on a connection, in whatever order and however damaged: with the guards
    of the current source the read loop never ends in a panic of gldap's own decoding -/
theorem session_never_crashes (env : Env) (table) (g : Guards) (hg : g.decodeAll = true) (cfg : Cfg)
    (fuel : Nat) (bs : Bytes) : (session env table g cfg fuel bs).2 ≠ .crashed := by
  induction fuel generalizing bs with
  | zero => simp [session]
  | succ fuel ih =>
    rw [session]
    by_cases hb : bs.isEmpty = true
    · simp [hb]
    · simp only [hb]
      cases hs : serveFrame env g bs with
      | err => simp
      | panic =>
        rcases C02_frames env g hg bs with ⟨m, hm⟩ | he
        · rw [hs] at hm; contradiction
        · rw [hs] at he; contradiction
      | ok msg =>
        by_cases hu : msg.isUnbind = true
        · simp [hu]
        · simp only [hu]; exact ih _

theorem session_never_crashes_current (env : Env) (cfg : Cfg) (fuel : Nat) (bs : Bytes) :
    (session env Generated.refusalTable Generated.guards cfg fuel bs).2 ≠ .crashed :=
  session_never_crashes env _ _ (by decide) cfg fuel bs

/-! ### every frame of a session answers one of the requests read on it -/

theorem framesFor_ids (table) (g : Guards) (cfg : Cfg) (msg : Msg) :
    ∀ f ∈ framesFor table g cfg msg, ∃ r : Resp, f = responseBytes r ∧ r.messageID = msg.id := by
  intro f hf
  unfold framesFor at hf
  split at hf
  · simp only [respondUnbind, List.mem_map] at hf
    obtain ⟨r, hr, rfl⟩ := hf
    refine ⟨r, rfl, ?_⟩
    unfold respondUnbindR at hr
    split at hr
    · exact runScript_ids g msg.id _ r hr
    · simp at hr
  · simp only [respond, List.mem_map] at hf
    obtain ⟨r, hr, rfl⟩ := hf
    exact ⟨r, rfl, respond_ids table g cfg msg r hr⟩

/-- for arbitrary input bytes: each frame the connection writes is the encoding of a response
    whose message id is that of a request decoded from those bytes -/
theorem session_ids (env : Env) (table) (g : Guards) (cfg : Cfg) (fuel : Nat) (bs : Bytes) :
    ∀ f ∈ (session env table g cfg fuel bs).1,
      ∃ msg ∈ sessionMsgs env g fuel bs, ∃ r : Resp, f = responseBytes r ∧ r.messageID = msg.id := by
  intro f hf
  rw [session_frames, List.mem_flatMap] at hf
  obtain ⟨msg, hm, hf⟩ := hf
  exact ⟨msg, hm, framesFor_ids table g cfg msg f hf⟩


/-! ### pipelining clients: the sequential answers, interleaved frame-wise (composition with C05) -/

/-- request number `w` of a pipeline is answered by its own writer (conn.go dispatches every
    request other than StartTLS and Unbind to its own goroutine) -/
def pipelineFrames (table : Option (List (Bytes × Nat))) (g : Guards) (cfg : Cfg) (msgs : List Msg) : Nat → List Bytes :=
  fun w => match msgs[w]? with
    | some m => framesFor table g cfg m
    | none => []

/-- **Whatever the schedule of the handlers of a pipeline:** once they are all done, the wire
    holds whole frames only, and the frames of request `w` are exactly the frames the sequential
    model writes for it, each once and in their order - the stream differs from the lock-step
    session only in how the per-request frame lists are interleaved. Every frame carries the
    message id of the request whose handler wrote it. -/
theorem pipelined_session (table) (g : Guards) (cfg : Cfg) (msgs : List Msg)
    (ls : List (Nat × Nat)) (s : Writer.WS)
    (hr : Writer.run Writer.good (Writer.init (pipelineFrames table g cfg msgs)) ls = some s)
    (hfree : s.mutex = none) (hdone : ∀ w, s.todo w = []) :
    s.wire = Writer.flat s.done ∧
    (∀ w, Writer.doneOf s w = pipelineFrames table g cfg msgs w) ∧
    (∀ e ∈ s.done, ∃ m r, msgs[e.1]? = some m ∧ e.2 = responseBytes r ∧ r.messageID = m.id) := by
  obtain ⟨h1, h2⟩ := Writer.C05_quiescent (pipelineFrames table g cfg msgs) ls s hr hfree hdone
  refine ⟨h1, h2, ?_⟩
  intro e he
  have hmem : e.2 ∈ Writer.doneOf s e.1 := by
    simp only [Writer.doneOf, List.mem_map, List.mem_filter]
    exact ⟨e, ⟨he, by simp⟩, rfl⟩
  rw [h2 e.1] at hmem
  unfold pipelineFrames at hmem
  cases hm : msgs[e.1]? with
  | none => simp [hm] at hmem
  | some m =>
    simp only [hm] at hmem
    obtain ⟨r, hr1, hr2⟩ := framesFor_ids table g cfg m e.2 hmem
    exact ⟨m, r, rfl, hr1, hr2⟩

/-! ### the built-in refusal on the wire -/

/-- no route matches and there is no default route: exactly one frame, gldap's refusal, with
    the request's id, unwillingToPerform and the response tag that belongs to the operation -/
theorem respond_refusal (table) (htable : tableOK table = true) (g : Guards) (cfg : Cfg) (msg : Msg)
    (h1 : ∀ p ∈ (Mux.build cfg.regs).routes, matchesRoute p.1 msg = false) (h2 : (Mux.build cfg.regs).dflt = none) :
    respondR table g cfg msg = [refusal msg.id (responseTagOf msg) ResultUnwillingToPerform] := by
  have h := C03_refusal table htable (Mux.build cfg.regs) msg h1 h2
  simp [respondR, h, effectResps, ResultUnwillingToPerform]

/-! ### the client's view of a whole conversation -/

/-- all responses written during a conversation, request by request -/
def conversation (table : Option (List (Bytes × Nat))) (g : Guards) (cfg : Cfg) (dec : CReq → Bytes) (rs : List CReq) : List Resp :=
  rs.flatMap (fun r => respondR table g cfg (expected (dec r) r))

theorem conversation_frames (table) (g : Guards) (cfg : Cfg) (dec : CReq → Bytes) (rs : List CReq) :
    rs.flatMap (fun r => respond table g cfg (expected (dec r) r)) =
      (conversation table g cfg dec rs).map responseBytes := by
  induction rs with
  | nil => rfl
  | cons r rs ih => simp [conversation, respond, List.flatMap_cons] at ih ⊢; rw [ih]

theorem serAll_map_packetOf (rs : List Resp) : serAll (rs.map packetOf) = (rs.map responseBytes).flatten := by
  induction rs with
  | nil => rfl
  | cons r rs ih => simp [serAll, responseBytes, ih]

/-- **The stream a client reads back is a sequence of whole LDAPMessages, one per response
    written, in request order.** A strict reader of the concatenated output of the whole
    session recovers exactly the response packets, none torn, merged, lost or duplicated. -/
theorem session_client_stream (env : Env) (table) (g : Guards) (cfg : Cfg) (tt : UInt8) (htt : tt ≠ 0)
    (dec : CReq → Bytes) (rs : List CReq) (hs : ∀ r ∈ rs, Sendable env tt dec r)
    (hu : ∀ r ∈ rs, r.isUnbind = false)
    (hresp : ∀ r ∈ conversation table g cfg dec rs, (packetOf r).WF env.ext) :
    readAll env.ext ((conversation table g cfg dec rs).length + 1)
      (session env table g cfg (rs.length + 1) (wire tt rs)).1.flatten =
      some ((conversation table g cfg dec rs).map packetOf) := by
  rw [session_complete env table g cfg tt htt dec rs hs hu 1, conversation_frames]
  simp only
  rw [← serAll_map_packetOf]
  have := readAll_serAll env.ext ((conversation table g cfg dec rs).map packetOf)
    (by intro n hn; simp only [List.mem_map] at hn; obtain ⟨r, hr, rfl⟩ := hn; exact hresp r hr)
  simpa using this

/-! ### the statements for the source as it is now -/

theorem session_current (env : Env) (cfg : Cfg) (tt : UInt8) (htt : tt ≠ 0)
    (dec : CReq → Bytes) (rs : List CReq) (hs : ∀ r ∈ rs, Sendable env tt dec r)
    (hu : ∀ r ∈ rs, r.isUnbind = false) (id : Int) (hid : Int64 id)
    (hber : (clientEncode tt (.unbind id)).WF env.ext) (fuel : Nat) (rest : Bytes) :
    session env Generated.refusalTable Generated.guards cfg (rs.length + (fuel + 1))
        (wire tt rs ++ (ser (clientEncode tt (.unbind id)) ++ rest)) =
      (rs.flatMap (fun r => respond Generated.refusalTable Generated.guards cfg (expected (dec r) r)) ++
        respondUnbind Generated.guards cfg id, .unbind) :=
  session_requests_then_unbind env _ _ cfg tt htt dec rs hs hu id hid hber fuel rest

/-! ### non-vacuity: a concrete conversation, evaluated -/

def demoCfg : Cfg :=
  { regs := [.route .bind 0, .route (.extended [49, 46, 50]) 1, .unbind 2],
    script := fun k _ =>
      if k = 0 then [⟨.bind, [.code 0], []⟩]
      else if k = 1 then [⟨.extended, [.code 0], [.code 2]⟩, ⟨.general, [.appCode 25], []⟩]
      else [] }

def demoEnv : Env := { ext := fun _ _ => true, decompile := fun _ => none }

/-- bind (id 1), extended "1.2" (id 2), delete (id 3, no route: refused with DelResponse),
    unbind (id 4), then a further bind that is never served -/
example :
    let rs : List CReq := [.bind 1 [99] [112] [], .extended 2 [49, 46, 50], .delete 3 [99] []]
    let input := wire 255 rs ++ (ser (clientEncode 255 (.unbind 4)) ++ ser (clientEncode 255 (.bind 5 [99] [112] [])))
    let out := session demoEnv (some [(deleteRouteOperation, 11)]) allGuards demoCfg 10 input
    out.2 = .unbind ∧ out.1.length = 4 ∧
      out.1.map (fun f => (readPacket demoEnv.ext f).bind (fun p => (readResponse demoEnv.ext p.1).map (fun v => (v.messageID, v.tag)))) =
        [some (1, 1), some (2, 24), some (2, 25), some (3, 11)] := by
  decide

end Gldap.Session
