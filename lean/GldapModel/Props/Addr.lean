import GldapModel.Gldap.Addr
/-! # C17, the address half: `validateAddrPort` never rewrites the port

Whatever the three library verdicts are: an address without a colon or with nothing behind
its last colon is refused; and an accepted address reaches `net.Listen` with exactly the port
text the caller wrote behind the last colon - so whether that port is well-formed (a number in
0..65535) is decided by `net.Listen`, on the caller's own text, and a malformed one makes `Run`
fail before Ready is ever set (C17_listen_fails). -/
namespace Gldap.Addr
open Ber

theorem lastIdx_split (b : UInt8) (a : Bytes) (i : Nat) (h : lastIdx b a = some i) :
    a = a.take i ++ b :: a.drop (i + 1) ∧ b ∉ a.drop (i + 1) := by
  induction a generalizing i with
  | nil => simp [lastIdx] at h
  | cons x xs ih =>
    simp only [lastIdx] at h
    cases hl : lastIdx b xs with
    | some j =>
      simp [hl] at h
      subst h
      obtain ⟨h1, h2⟩ := ih j hl
      constructor
      · simp only [List.take_succ_cons, List.drop_succ_cons, List.cons_append]
        rw [← h1]
      · simpa using h2
    | none =>
      simp only [hl] at h
      split at h
      · rename_i hx
        injection h with h
        subst h
        have hx' : x = b := by simpa using hx
        subst hx'
        refine ⟨by simp, ?_⟩
        simp only [Nat.zero_add, List.drop_succ_cons, List.drop_zero]
        -- no `x` further right, or `lastIdx` would have found it
        intro hm
        have : ∀ (l : Bytes), x ∈ l → lastIdx x l ≠ none := by
          intro l
          induction l with
          | nil => simp
          | cons y ys ihy =>
            intro hy
            simp only [lastIdx]
            cases hly : lastIdx x ys with
            | some _ => simp
            | none =>
              simp only [List.mem_cons] at hy
              rcases hy with rfl | hy
              · simp
              · exact absurd hly (ihy hy)
        exact this xs hm hl
      · contradiction

theorem lastIdx_none (b : UInt8) (a : Bytes) (h : lastIdx b a = none) : b ∉ a := by
  induction a with
  | nil => simp
  | cons x xs ih =>
    simp only [lastIdx] at h
    cases hl : lastIdx b xs with
    | some j => simp [hl] at h
    | none =>
      simp only [hl] at h
      split at h
      · contradiction
      · rename_i hx
        simp only [List.mem_cons, not_or]
        exact ⟨fun e => hx (by simp [e]), ih hl⟩

/-- an address with no colon, or with nothing behind the last one, is refused -/
theorem validate_needs_port (env : AddrEnv) (a : Bytes) (out : Bytes) (h : validateAddrPort env a = some out) :
    ∃ i, lastIdx colon a = some i ∧ a.drop (i + 1) ≠ [] := by
  unfold validateAddrPort at h
  cases hl : lastIdx colon a with
  | none => simp [hl] at h
  | some i =>
    refine ⟨i, rfl, ?_⟩
    intro he
    simp [hl, he] at h

/-- **The port is never rewritten.** An accepted address is `host' ++ ":" ++ port` where `port`
    is exactly what the caller wrote behind the last colon (and contains no colon itself). -/
theorem validate_port_preserved (env : AddrEnv) (a : Bytes) (out : Bytes) (h : validateAddrPort env a = some out) :
    ∃ i host', lastIdx colon a = some i ∧ out = host' ++ colon :: a.drop (i + 1) ∧ colon ∉ a.drop (i + 1) := by
  unfold validateAddrPort at h
  cases hl : lastIdx colon a with
  | none => simp [hl] at h
  | some i =>
    have hs := (lastIdx_split colon a i hl).2
    simp only [hl] at h
    repeat' split at h
    all_goals first
      | contradiction
      | (injection h with h; subst h
         first
           | (refine ⟨i, [], rfl, ?_, hs⟩; simp; done)
           | (refine ⟨i, a.take i, rfl, ?_, hs⟩; simp; done)
           | (refine ⟨i, lbr :: a.take i ++ [rbr], rfl, ?_, hs⟩; simp; done))

/-- the output's own last colon is the one in front of that port: `net.Listen` splits it there -/
theorem validate_listen_sees_port (env : AddrEnv) (a : Bytes) (out : Bytes) (h : validateAddrPort env a = some out) :
    ∃ i j, lastIdx colon a = some i ∧ lastIdx colon out = some j ∧ out.drop (j + 1) = a.drop (i + 1) := by
  obtain ⟨i, host', hi, ho, hc⟩ := validate_port_preserved env a out h
  subst ho
  -- the rightmost colon of host' ++ ':' :: port is that one, because port has none
  have key : ∀ (p : Bytes), colon ∉ p → ∀ (hst : Bytes), lastIdx colon (hst ++ colon :: p) = some hst.length := by
    intro p hp hst
    induction hst with
    | nil =>
      simp only [List.nil_append, lastIdx, List.length_nil]
      have : lastIdx colon p = none := by
        cases hq : lastIdx colon p with
        | none => rfl
        | some k =>
          have := (lastIdx_split colon p k hq).1
          exact absurd (by rw [this]; simp) hp
      simp [this]
    | cons y ys ih => simp [lastIdx, ih]
  refine ⟨i, host'.length, hi, key _ hc host', ?_⟩
  simp

example : validateAddrPort ⟨fun _ => true, fun _ => false, fun _ => true⟩ [49, 46, 50, 46, 51, 46, 52, 58, 55, 48, 48, 48, 48] =
    some [49, 46, 50, 46, 51, 46, 52, 58, 55, 48, 48, 48, 48] := by decide   -- "1.2.3.4:70000" stays "1.2.3.4:70000"

end Gldap.Addr
