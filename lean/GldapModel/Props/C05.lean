import GldapModel.Proofs.WriterInv
import GldapModel.Generated.Facts
/-! # C05 - concurrent handlers never tear, merge, lose or duplicate response frames -/
namespace Writer
open Ber

/-- the frames of writer `w` completed so far, in completion order -/
def doneOf (s : WS) (w : Nat) : List Bytes := (s.done.filter (·.1 = w)).map (·.2)

/-- All writers, all frame sizes, all spills, all schedules: whenever no writer is inside
    `Write`, the bytes on the wire are exactly the concatenation of the completed frames in
    completion order, and each writer's completed frames are a prefix, in order, of what it
    set out to write (nothing lost, duplicated or reordered). -/
theorem C05_whole_frames' (seq : List WOp) (hseq : seq = good) (frames : Nat → List Bytes)
    (ls : List (Nat × Nat)) (s : WS) (hr : run seq (init frames) ls = some s) (hfree : s.mutex = none) :
    s.wire = flat s.done ∧ ∀ w, doneOf s w ++ s.todo w = frames w := by
  subst hseq
  exact C05_whole_frames frames ls s hr hfree

/-- at quiescence every writer's frames all arrived, each exactly once, in its own order -/
theorem C05_quiescent (frames : Nat → List Bytes) (ls : List (Nat × Nat)) (s : WS)
    (hr : run good (init frames) ls = some s) (hfree : s.mutex = none) (hdone : ∀ w, s.todo w = []) :
    s.wire = flat s.done ∧ ∀ w, doneOf s w = frames w := by
  obtain ⟨h1, h2⟩ := C05_whole_frames frames ls s hr hfree
  refine ⟨h1, fun w => ?_⟩
  have := h2 w
  rw [hdone w, List.append_nil] at this
  exact this

theorem flat_eq_serAll (d : List (Nat × Bytes)) (ns : List Node) (h : d.map (·.2) = ns.map ser) :
    flat d = serAll ns := by
  unfold flat
  rw [h]
  clear h
  induction ns with
  | nil => rfl
  | cons n ns ih => simp [serAll, ih]

/-- ... and the client's incremental reader splits the stream into exactly those messages:
    if every frame written is the serialisation of a well-formed LDAPMessage tree, reading
    the wire yields the completed messages, whole and in completion order -/
theorem C05_client_view (ext : Nat → Bytes → Bool) (frames : Nat → List Bytes) (ls : List (Nat × Nat)) (s : WS)
    (hr : run good (init frames) ls = some s) (hfree : s.mutex = none)
    (msgs : List Node) (hmsgs : s.done.map (·.2) = msgs.map ser) (hw : ∀ n ∈ msgs, n.WF ext) :
    readAll ext (msgs.length + 1) s.wire = some msgs := by
  obtain ⟨h1, _⟩ := C05_whole_frames frames ls s hr hfree
  rw [h1, flat_eq_serAll s.done msgs hmsgs]
  exact readAll_serAll ext msgs hw

/-- the statement for the source as it is now: the order extracted from response.go -/
theorem C05_current (frames : Nat → List Bytes) (ls : List (Nat × Nat)) (s : WS)
    (hr : run Gldap.Generated.writeSeq (init frames) ls = some s) (hfree : s.mutex = none) :
    s.wire = flat s.done ∧ ∀ w, doneOf s w ++ s.todo w = frames w :=
  C05_whole_frames' Gldap.Generated.writeSeq (by decide) frames ls s hr hfree

theorem C05_current_shared_lock : Gldap.Generated.writerLockPerConn = true := by decide

/-! ### why the discipline is needed: the same model exhibits the failures -/

def twoFrames : Nat → List Bytes := fun w => if w = 0 then [[1]] else if w = 1 then [[2]] else []

def broken (s : WS) : Bool :=
  s.mutex.isNone && (s.todo 0).isEmpty && (s.todo 1).isEmpty && (s.wire ++ s.buf != flat s.done)

/-- without the lock two interleaved writes lose a frame -/
theorem C05_counterexample_nolock :
    (run [.write, .flush] (init twoFrames) [(1, 9), (0, 0), (1, 9), (0, 0), (1, 9), (0, 0), (1, 9), (0, 0)]).map broken
      = some true := by decide

/-- unlocking before the flush lets another writer's bytes be flushed twice -/
theorem C05_counterexample_unlock_before_flush :
    (run [.lock, .write, .unlock, .flush] (init twoFrames)
      [(1, 9), (1, 0), (1, 9), (1, 0), (1, 9), (0, 0), (0, 9), (0, 0), (1, 9), (0, 0), (0, 9), (0, 0)]).map broken
      = some true := by decide

/-- non-vacuity: a complete good run of two writers -/
example : (run good (init twoFrames)
    [(0, 0), (0, 0), (0, 0), (0, 0), (0, 0), (0, 0), (1, 0), (1, 0), (1, 5), (1, 0), (1, 0), (1, 0)]).map
      (fun s => (s.mutex, s.wire, s.done)) = some (none, [1, 2], [(0, [1]), (1, [2])]) := by decide

end Writer
