import GldapModel.Proofs.ServerGeneric
import GldapModel.Generated.Facts
/-! # C09 - connection IDs are unique per server and stable per connection

Holds for EVERY value of the extracted facts: the accept loop's counter is bumped once per
iteration before `Accept`, and the id a connection goroutine, its requests and its OnClose call
use is the copy taken at accept time. -/
namespace Server

/-- over any accept / close / reconnect history, any number of Stop calls and faults: the ids of
    all connections ever accepted are pairwise distinct (never reused after a close), positive, and
    bounded by the accept counter -/
theorem C09_unique (F : Facts) (n : Nat) (ls : List Label) (s : Srv) (hr : run F (init n) ls = some s) :
    (s.conns.map (·.id)).Nodup ∧ ∀ c ∈ s.conns, 0 < c.id ∧ c.id ≤ s.nextConn := by
  have h := iinv_run F ls (init n) s (iinv_init n) hr
  refine ⟨h.nodup, fun c hc => h.pos c.id ?_⟩
  exact List.mem_map.mpr ⟨c, hc, rfl⟩

theorem C09_current (n : Nat) (ls : List Label) (s : Srv) (hr : run Gldap.Generated.serverFacts (init n) ls = some s) :
    (s.conns.map (·.id)).Nodup ∧ ∀ c ∈ s.conns, 0 < c.id ∧ c.id ≤ s.nextConn := C09_unique _ n ls s hr

/-- non-vacuity: two connections, the first closed before the second is accepted -/
example : (run goodFacts (init 0) [.runListen true, .runLoopTop, .runAcceptOk, .runSpawn, .connExit 1, .teardown 1,
    .teardown 1, .teardown 1, .runLoopTop, .runAcceptOk, .runSpawn]).map (fun s => s.conns.map (·.id)) = some [1, 2] := by decide

end Server
