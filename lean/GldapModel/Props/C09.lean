import GldapModel.Proofs.ServerGeneric
import GldapModel.Generated.Facts
/-! # C09 - connection IDs are unique per server and stable per connection

Holds for EVERY value of the extracted facts: the accept loop's counter is bumped once per
iteration before `Accept`, and the id a connection goroutine, its requests and its OnClose call
use is the copy taken at accept time. -/
namespace Server

/-- over any accept / close / reconnect history, any number of Stop calls and faults: the ids of
    all connections ever accepted are pairwise distinct (never reused after a close), positive, and
    bounded by the accept counter -/
theorem C09_unique (F : Facts) (n : Nat) (ls : List Label) (s : Srv) (hr : run F (init n) ls = some s) :
    (s.conns.map (·.id)).Nodup ∧ ∀ c ∈ s.conns, 0 < c.id ∧ c.id ≤ s.nextConn := by
  have h := iinv_run F ls (init n) s (iinv_init n) hr
  refine ⟨h.nodup, fun c hc => h.pos c.id ?_⟩
  exact List.mem_map.mpr ⟨c, hc, rfl⟩

theorem C09_current (n : Nat) (ls : List Label) (s : Srv) (hr : run Gldap.Generated.serverFacts (init n) ls = some s) :
    (s.conns.map (·.id)).Nodup ∧ ∀ c ∈ s.conns, 0 < c.id ∧ c.id ≤ s.nextConn := C09_unique _ n ls s hr

/-! ### the counter is a Go `int`, not a natural number

The model counts in `Nat`; the code counts in a 64-bit `int`. `wrapInt w` is what a `w`-bit two's-complement counter
holds after `k` increments from 0. As long as fewer than 2^(w-1) loop iterations have happened the two agree, so the
ids stay positive and distinct; at 2^(w-1) a `w`-bit counter turns negative - which is why a narrower counter (or one
that is reset) breaks the property on a long-lived server. -/

def wrapInt (w : Nat) (k : Nat) : Int :=
  let m := k % 2 ^ w
  if m < 2 ^ (w - 1) then (m : Int) else (m : Int) - (2 ^ w : Nat)

theorem wrapInt_faithful (w k : Nat) (hw : 0 < w) (hk : k < 2 ^ (w - 1)) : wrapInt w k = (k : Int) := by
  unfold wrapInt
  have h2 : 2 ^ w = 2 * 2 ^ (w - 1) := by
    obtain ⟨v, rfl⟩ : ∃ v, w = v + 1 := ⟨w - 1, by omega⟩
    simp [Nat.pow_succ, Nat.mul_comm]
  have hm : k % 2 ^ w = k := Nat.mod_eq_of_lt (by omega)
  simp only [hm, hk, if_true]

/-- ids handed out by a 64-bit counter: positive and pairwise distinct for the first 2^63 - 1 accept-loop iterations -/
theorem C09_int64 (F : Facts) (n : Nat) (ls : List Label) (s : Srv) (hr : run F (init n) ls = some s)
    (hbound : s.nextConn < 2 ^ 63) :
    ((s.conns.map (·.id)).map (wrapInt 64)).Nodup ∧ ∀ c ∈ s.conns, 0 < wrapInt 64 c.id := by
  obtain ⟨hn, hp⟩ := C09_unique F n ls s hr
  have hf : ∀ c ∈ s.conns, wrapInt 64 c.id = (c.id : Int) :=
    fun c hc => wrapInt_faithful 64 c.id (by decide) (by have := (hp c hc).2; omega)
  constructor
  · rw [List.map_map]
    have : s.conns.map (wrapInt 64 ∘ (·.id)) = s.conns.map (fun c => (c.id : Int)) :=
      List.map_congr_left (fun c hc => by simp [Function.comp, hf c hc])
    rw [this]
    have h2 : s.conns.map (fun c => (c.id : Int)) = (s.conns.map (·.id)).map (fun k : Nat => (k : Int)) := by
      rw [List.map_map]; rfl
    rw [h2]
    exact List.Pairwise.map (fun k : Nat => (k : Int)) (fun a b h e => h (Int.ofNat.inj e)) hn
  · intro c hc
    rw [hf c hc]
    have := (hp c hc).1
    exact_mod_cast this

/-- a 16-bit counter: after 2^15 iterations the id is negative, after 2^16 it is 0 again -/
example : wrapInt 16 32768 = -32768 ∧ wrapInt 16 65536 = 0 ∧ wrapInt 16 65537 = wrapInt 16 1 := by decide

/-- non-vacuity: two connections, the first closed before the second is accepted -/
example : (run goodFacts (init 0) [.runListen true, .runLoopTop, .runAcceptOk, .runSpawn, .connExit 1, .teardown 1,
    .teardown 1, .teardown 1, .runLoopTop, .runAcceptOk, .runSpawn]).map (fun s => s.conns.map (·.id)) = some [1, 2] := by decide

end Server
