import GldapModel.Proofs.ControlRT
import GldapModel.Proofs.Decimal
import GldapModel.Spec.ClientView
import GldapModel.Generated.Facts
/-! # C14 - controls survive encode and decode unchanged, in both directions

`encodeControl` models the `Encode()` method of each exported control type;
`decodeControl` is gldap's request decoder; `Spec.readCtl` is an independent strict client.
Also: the Behera constructor under Go's `uint -> int -> int8` conversions. -/
namespace Gldap
open Ber Spec Gldap.Generated

/-- the control values the theorems cover (the property's quantifier) -/
def Control.WF : Control → Prop
  | .str oid _ _ => oid ∉ typedOids
  | .manageDsaIT _ => True
  | .paging size cookie => size < 2^32 ∧ cookie.length < 2^31 - 64
  | .behera e g er =>
      (-1 ≤ e ∧ e < 2^63) ∧ (-1 ≤ g ∧ g < 2^63) ∧ (-1 ≤ er ∧ er ≤ 8) ∧
      ((e = -1 ∧ g = -1) ∨ (e = -1 ∧ er = -1) ∨ (g = -1 ∧ er = -1))
  | .vchuMustChange => True
  | .vchuWarning e => Int64 e
  | .msNotification => True
  | .msShowDeleted => True
  | .msServerLinkTTL => True

/-- the client-side reading of a gldap control value -/
def toCCtl : Control → CCtl
  | .str oid crit v => .generic oid crit false v
  | .manageDsaIT crit => .manageDsaIT crit false
  | .paging s c => .paging s c
  | .behera e g er =>
      if g ≥ 0 then .beheraGrace g else if e ≥ 0 then .beheraExpire e
      else if er ≥ 0 then .beheraError er.toNat else .beheraEmpty
  | .vchuMustChange => .vchuMustChange
  | .vchuWarning e => .vchuWarning (formatInt e)
  | .msNotification => .msNotification
  | .msShowDeleted => .msShowDeleted
  | .msServerLinkTTL => .msServerLinkTTL

theorem oids_eq :
    ControlTypePaging = oidPaging ∧ ControlTypeBeheraPasswordPolicy = oidBehera ∧
    ControlTypeVChuPasswordMustChange = oidVChuMustChange ∧ ControlTypeVChuPasswordWarning = oidVChuWarning ∧
    ControlTypeManageDsaIT = oidManageDsaIT ∧ ControlTypeMicrosoftNotification = oidMsNotification ∧
    ControlTypeMicrosoftShowDeleted = oidMsShowDeleted ∧ ControlTypeMicrosoftServerLinkTTL = oidMsServerLinkTTL := by
  decide

theorem encodeInteger_small (e : Int) (h : 0 ≤ e ∧ e ≤ 8) : encodeInteger e = [e.toNat.toUInt8] := by
  obtain ⟨h0, h8⟩ := h
  have : e = 0 ∨ e = 1 ∨ e = 2 ∨ e = 3 ∨ e = 4 ∨ e = 5 ∨ e = 6 ∨ e = 7 ∨ e = 8 := by omega
  rcases this with rfl | rfl | rfl | rfl | rfl | rfl | rfl | rfl | rfl <;> decide

/-- gldap's `Encode()` emits exactly the RFC encoding (with asn1-ber's 0x01 for TRUE) -/
theorem encodeControl_spec (c : Control) (hw : c.WF) : encodeControl c = encodeCtl 1 (toCCtl c) := by
  obtain ⟨e1, e2, e3, e4, e5, e6, e7, e8⟩ := oids_eq
  cases c with
  | str oid crit v =>
    cases crit <;> simp [encodeControl, encodeCtl, toCCtl, seqNode, octetNode, boolNode, Spec.seq, Spec.octet, Spec.bool] <;> decide
  | manageDsaIT crit =>
    cases crit <;> simp [encodeControl, encodeCtl, toCCtl, seqNode, octetNode, boolNode, Spec.seq, Spec.octet, Spec.bool, e5] <;> decide
  | paging s ck => simp [encodeControl, encodeCtl, toCCtl, seqNode, octetNode, Spec.seq, Spec.octet, Spec.int, e1]
  | behera e g er =>
    obtain ⟨he, hg, her, _⟩ := hw
    simp only [encodeControl, toCCtl]
    by_cases h1 : g ≥ 0
    · simp [h1, encodeCtl, seqNode, octetNode, Spec.seq, Spec.octet, e2]
    · by_cases h2 : e ≥ 0
      · simp [h1, h2, encodeCtl, seqNode, octetNode, Spec.seq, Spec.octet, e2]
      · by_cases h3 : er ≥ 0
        · have := encodeInteger_small er ⟨h3, her.2⟩
          simp [h1, h2, h3, encodeCtl, seqNode, octetNode, Spec.seq, Spec.octet, e2, this]
        · simp [h1, h2, h3, encodeCtl, seqNode, octetNode, Spec.seq, Spec.octet, e2]
  | vchuMustChange => simp [encodeControl, encodeCtl, toCCtl, seqNode, octetNode, Spec.seq, Spec.octet, e3]
  | vchuWarning e => simp [encodeControl, encodeCtl, toCCtl, seqNode, octetNode, Spec.seq, Spec.octet, e4]
  | msNotification => simp [encodeControl, encodeCtl, toCCtl, seqNode, octetNode, Spec.seq, Spec.octet, e6]
  | msShowDeleted => simp [encodeControl, encodeCtl, toCCtl, seqNode, octetNode, Spec.seq, Spec.octet, e7]
  | msServerLinkTTL => simp [encodeControl, encodeCtl, toCCtl, seqNode, octetNode, Spec.seq, Spec.octet, e8]

theorem toCCtl_WF (c : Control) (hw : c.WF) : (toCCtl c).WF := by
  cases c with
  | behera e g er =>
    obtain ⟨he, hg, her, _⟩ := hw
    simp only [toCCtl]
    by_cases h1 : g ≥ 0
    · simp only [h1, if_true, CCtl.WF]; exact ⟨trivial, hg.2⟩
    · by_cases h2 : e ≥ 0
      · simp only [h1, h2, if_true, if_false, CCtl.WF]; exact ⟨trivial, he.2⟩
      · by_cases h3 : er ≥ 0
        · simp only [h1, h2, h3, if_true, if_false, CCtl.WF]; omega
        · simp [h1, h2, h3, CCtl.WF]
  | vchuWarning e => exact ⟨e, parseDecimal_formatInt e hw⟩
  | str oid crit v => exact hw
  | paging s ck => exact hw
  | manageDsaIT _ => trivial
  | vchuMustChange => trivial
  | msNotification => trivial
  | msShowDeleted => trivial
  | msServerLinkTTL => trivial

theorem expected_toCCtl (c : Control) (hw : c.WF) : expectedCtl decimalOf (toCCtl c) = c := by
  cases c with
  | behera e g er =>
    obtain ⟨he, hg, her, hone⟩ := hw
    simp only [toCCtl]
    by_cases h1 : g ≥ 0
    · have : e = -1 ∧ er = -1 := by omega
      simp [h1, expectedCtl, this.1, this.2]
    · by_cases h2 : e ≥ 0
      · have : g = -1 ∧ er = -1 := by omega
        simp [h1, h2, expectedCtl, this.1, this.2]
      · by_cases h3 : er ≥ 0
        · have : g = -1 ∧ e = -1 := by omega
          have h4 : ((er.toNat : Nat) : Int) = er := by omega
          simp [h1, h2, h3, expectedCtl, this.1, this.2, h4]
        · have : g = -1 ∧ e = -1 ∧ er = -1 := by omega
          simp [h1, h2, h3, expectedCtl, this.1, this.2.1, this.2.2]
  | vchuWarning e => simp [toCCtl, expectedCtl, decimalOf, parseDecimal_formatInt e hw]
  | str oid crit v => rfl
  | paging s ck => rfl
  | manageDsaIT _ => rfl
  | vchuMustChange => rfl
  | msNotification => rfl
  | msShowDeleted => rfl
  | msServerLinkTTL => rfl

/-- request direction: gldap's decoder recovers every encoded control unchanged -/
theorem C14_request (env : Env) (g : Guards) (c : Control) (hw : c.WF) :
    decodeControl env g (encodeControl c) = .ok c := by
  rw [encodeControl_spec c hw, decodeControl_encodeCtl env g 1 (by decide) _ (toCCtl_WF c hw), expected_toCCtl c hw]

/-- any number and order of controls on one message -/
theorem C14_request_list (env : Env) (g : Guards) (cs : List Control) (hw : ∀ c ∈ cs, c.WF) :
    decodeControls env g (encodeControls cs).kids = .ok cs := by
  simp only [encodeControls, cons_kids]
  induction cs with
  | nil => simp [decodeControls]
  | cons c cs ih =>
    have h1 := C14_request env g c (hw c (by simp))
    have h2 := ih (fun c hc => hw c (by simp [hc]))
    simp [decodeControls, h1, h2, bind, pure]

/-- ... also from the bytes on the wire -/
theorem C14_request_wire (env : Env) (g : Guards) (c : Control) (hw : c.WF) (rest : Bytes)
    (hber : (encodeControl c).WF env.ext) :
    (readPacket env.ext (ser (encodeControl c) ++ rest)).map (fun p => decodeControl env g p.1) = some (.ok c) := by
  simp [readPacket_ser env.ext _ rest hber, C14_request env g c hw]

theorem C14_current (env : Env) (cs : List Control) (hw : ∀ c ∈ cs, c.WF) :
    decodeControls env Generated.guards (encodeControls cs).kids = .ok cs :=
  C14_request_list env Generated.guards cs hw

/-! ### response direction: an independent client -/

/-- what a client must learn from a gldap control value -/
def viewOf : Control → CView
  | .str oid crit v => .generic oid crit v
  | .manageDsaIT crit => .manageDsaIT crit
  | .paging s c => .paging s c
  | .behera e g er =>
      if g ≥ 0 then .behera none (some g) none
      else if e ≥ 0 then .behera (some e) none none
      else if er ≥ 0 then .behera none none (some er.toNat)
      else .behera none none none
  | .vchuMustChange => .vchuMustChange
  | .vchuWarning e => .vchuWarning e
  | .msNotification => .msNotification
  | .msShowDeleted => .msShowDeleted
  | .msServerLinkTTL => .msServerLinkTTL

theorem readRaw1 (oid : Bytes) : readRaw (Spec.seq [Spec.octet oid]) = some ⟨oid, false, none⟩ := rfl
theorem readRaw2b (oid : Bytes) : readRaw (Spec.seq [Spec.octet oid, Spec.bool 1 true]) = some ⟨oid, true, none⟩ := rfl
theorem readRaw2v (oid v : Bytes) : readRaw (Spec.seq [Spec.octet oid, Spec.octet v]) = some ⟨oid, false, some v⟩ := rfl
theorem readRaw3 (oid v : Bytes) :
    readRaw (Spec.seq [Spec.octet oid, Spec.bool 1 true, Spec.octet v]) = some ⟨oid, true, some v⟩ := rfl

theorem typed_ne : oidPaging ≠ oidManageDsaIT ∧ oidBehera ≠ oidManageDsaIT ∧ oidBehera ≠ oidPaging ∧
    oidVChuMustChange ≠ oidManageDsaIT ∧ oidVChuMustChange ≠ oidPaging ∧ oidVChuMustChange ≠ oidBehera ∧
    oidVChuWarning ≠ oidManageDsaIT ∧ oidVChuWarning ≠ oidPaging ∧ oidVChuWarning ≠ oidBehera ∧
    oidVChuWarning ≠ oidVChuMustChange := by decide

theorem ms_ne : oidMsNotification ≠ oidManageDsaIT ∧ oidMsNotification ≠ oidPaging ∧ oidMsNotification ≠ oidBehera ∧
    oidMsNotification ≠ oidVChuMustChange ∧ oidMsNotification ≠ oidVChuWarning ∧
    oidMsShowDeleted ≠ oidManageDsaIT ∧ oidMsShowDeleted ≠ oidPaging ∧ oidMsShowDeleted ≠ oidBehera ∧
    oidMsShowDeleted ≠ oidVChuMustChange ∧ oidMsShowDeleted ≠ oidVChuWarning ∧ oidMsShowDeleted ≠ oidMsNotification ∧
    oidMsServerLinkTTL ≠ oidManageDsaIT ∧ oidMsServerLinkTTL ≠ oidPaging ∧ oidMsServerLinkTTL ≠ oidBehera ∧
    oidMsServerLinkTTL ≠ oidVChuMustChange ∧ oidMsServerLinkTTL ≠ oidVChuWarning ∧
    oidMsServerLinkTTL ≠ oidMsNotification ∧ oidMsServerLinkTTL ≠ oidMsShowDeleted := by decide

theorem readCtl_encodeCtl (ext : Nat → Bytes → Bool) (c : Control) (hw : c.WF) :
    readCtl ext (encodeCtl 1 (toCCtl c)) = some (viewOf c) := by
  obtain ⟨t1, t2, t3, t4, t5, t6, t7, t8, t9, t10⟩ := typed_ne
  obtain ⟨m1, m2, m3, m4, m5, m6, m7, m8, m9, m10, m11, m12, m13, m14, m15, m16, m17, m18⟩ := ms_ne
  cases c with
  | str oid crit v =>
    simp only [Control.WF, typedOids, List.mem_cons, List.not_mem_nil, or_false, not_or] at hw
    obtain ⟨h1, h2, h3, h4, h5, h6, h7, h8⟩ := hw
    cases crit <;> by_cases hv : v.isEmpty = true
    · have : v = [] := by simpa using hv
      subst this
      simp [toCCtl, encodeCtl, readCtl, readRaw1, viewOf, h1, h2, h3, h4, h5, h6, h7, h8]
    · simp [toCCtl, encodeCtl, hv, readCtl, readRaw2v, viewOf, h1, h2, h3, h4, h5, h6, h7, h8]
    · have : v = [] := by simpa using hv
      subst this
      simp [toCCtl, encodeCtl, readCtl, readRaw2b, viewOf, h1, h2, h3, h4, h5, h6, h7, h8]
    · simp [toCCtl, encodeCtl, hv, readCtl, readRaw3, viewOf, h1, h2, h3, h4, h5, h6, h7, h8]
  | manageDsaIT crit =>
    cases crit
    · simp [toCCtl, encodeCtl, readCtl, readRaw1, viewOf]
    · simp [toCCtl, encodeCtl, readCtl, readRaw2b, viewOf]
  | paging s ck =>
    obtain ⟨hs, hc⟩ := hw
    have hi : Int64 (s : Int) := by constructor <;> omega
    have hcl : ck.length ≤ maxPrim := by simp [maxPrim]; omega
    have hwf : (Spec.seq [Spec.int 2 s, Spec.octet ck]).WF ext := by
      have h1 := ser_prim_length_le 0 2 (encodeInteger s) (by omega) (by have := encodeInteger_length_le _ hi; omega)
      have h2 := ser_prim_length_le 0 4 ck (by omega) (by omega)
      have := encodeInteger_length_le _ hi
      refine ⟨by omega, by omega, ?_, wf_int _ _ hi, by simp [Spec.int, isEOC], wf_octet _ _ hcl, by simp [Spec.octet, isEOC], trivial⟩
      simp only [serAll, List.length_append, List.length_nil, Spec.int, Spec.octet] at *
      omega
    have hr := readPacket_ser ext _ [] hwf
    simp only [List.append_nil] at hr
    simp only [toCCtl, encodeCtl, readCtl, readRaw2v, t1, if_false, if_true, hr]
    simp [Spec.seq, Spec.int, Spec.octet, parseInt64_encodeInteger _ hi, viewOf]
  | behera e g er =>
    obtain ⟨he, hg, her, hone⟩ := hw
    simp only [toCCtl, viewOf]
    by_cases h1 : g ≥ 0
    · have hi : Int64 g := ⟨by omega, hg.2⟩
      have h8 := encodeInteger_length_le g hi
      have hwp : (Node.prim 2 1 (encodeInteger g)).WF ext :=
        wf_prim_ctx _ 2 1 _ (by omega) (by omega) (by simp [maxPrim]; omega)
      have hlp := ser_prim_length_le 2 1 (encodeInteger g) (by omega) (by omega)
      have hwc : (Node.cons 2 0 [.prim 2 1 (encodeInteger g)]).WF ext := by
        refine ⟨by omega, by omega, ?_, hwp, by simp [isEOC], trivial⟩
        simp only [serAll, List.length_append, List.length_nil]; omega
      have hlc := ser_cons_length_le 2 0 [.prim 2 1 (encodeInteger g)] (by omega)
        (by simp only [serAll, List.length_append, List.length_nil]; omega)
      have hwf : (Spec.seq [.cons 2 0 [.prim 2 1 (encodeInteger g)]]).WF ext :=
        wf_seq1 _ _ hwc (by simp [isEOC]) (by simp only [serAll, List.length_append, List.length_nil] at hlc; omega)
      have hr := readPacket_ser ext _ [] hwf
      simp only [List.append_nil] at hr
      simp only [h1, if_true, encodeCtl, readCtl, readRaw2v, t2, t3, if_false, hr]
      simp [Spec.seq, readBehera, parseInt64_encodeInteger _ hi]
    · by_cases h2 : e ≥ 0
      · have hi : Int64 e := ⟨by omega, he.2⟩
        have h8 := encodeInteger_length_le e hi
        have hwp : (Node.prim 2 0 (encodeInteger e)).WF ext :=
          wf_prim_ctx _ 2 0 _ (by omega) (by omega) (by simp [maxPrim]; omega)
        have hlp := ser_prim_length_le 2 0 (encodeInteger e) (by omega) (by omega)
        have hwc : (Node.cons 2 0 [.prim 2 0 (encodeInteger e)]).WF ext := by
          refine ⟨by omega, by omega, ?_, hwp, by simp [isEOC], trivial⟩
          simp only [serAll, List.length_append, List.length_nil]; omega
        have hlc := ser_cons_length_le 2 0 [.prim 2 0 (encodeInteger e)] (by omega)
          (by simp only [serAll, List.length_append, List.length_nil]; omega)
        have hwf : (Spec.seq [.cons 2 0 [.prim 2 0 (encodeInteger e)]]).WF ext :=
          wf_seq1 _ _ hwc (by simp [isEOC]) (by simp only [serAll, List.length_append, List.length_nil] at hlc; omega)
        have hr := readPacket_ser ext _ [] hwf
        simp only [List.append_nil] at hr
        simp only [h1, h2, if_true, if_false, encodeCtl, readCtl, readRaw2v, t2, t3, hr]
        simp [Spec.seq, readBehera, parseInt64_encodeInteger _ hi]
      · by_cases h3 : er ≥ 0
        · have hwp : (Node.prim 2 1 [er.toNat.toUInt8]).WF ext :=
            wf_prim_ctx _ 2 1 _ (by omega) (by omega) (by simp [maxPrim])
          have hl1 : ([er.toNat.toUInt8] : Bytes).length = 1 := rfl
          have hlp := ser_prim_length_le 2 1 [er.toNat.toUInt8] (by omega) (by omega)
          have hwf : (Spec.seq [.prim 2 1 [er.toNat.toUInt8]]).WF ext :=
            wf_seq1 _ _ hwp (by simp [isEOC]) (by omega)
          have hr := readPacket_ser ext _ [] hwf
          simp only [List.append_nil] at hr
          have hb : er.toNat.toUInt8.toNat = er.toNat := by rw [Nat.toUInt8, UInt8.toNat_ofNat']; omega
          simp only [h1, h2, h3, if_true, if_false, encodeCtl, readCtl, readRaw2v, t2, t3, hr]
          simp [Spec.seq, readBehera, hb]
        · simp [h1, h2, h3, encodeCtl, readCtl, readRaw1, t2, t3]
  | vchuMustChange => simp [toCCtl, encodeCtl, readCtl, readRaw1, viewOf, t4, t5, t6]
  | vchuWarning e =>
    simp [toCCtl, encodeCtl, readCtl, readRaw2v, viewOf, t7, t8, t9, t10, readDecimal, parseDecimal_formatInt e hw]
  | msNotification => simp [toCCtl, encodeCtl, readCtl, readRaw1, viewOf, m1, m2, m3, m4, m5]
  | msShowDeleted => simp [toCCtl, encodeCtl, readCtl, readRaw1, viewOf, m6, m7, m8, m9, m10, m11]
  | msServerLinkTTL => simp [toCCtl, encodeCtl, readCtl, readRaw1, viewOf, m12, m13, m14, m15, m16, m17, m18]

/-- response direction: an independent strict client recovers type, criticality, page size,
    cookie, expiry, grace, error and value from what gldap's `Encode()` puts on the wire -/
theorem C14_client (ext : Nat → Bytes → Bool) (c : Control) (hw : c.WF) :
    readCtl ext (encodeControl c) = some (viewOf c) := by
  rw [encodeControl_spec c hw]; exact readCtl_encodeCtl ext c hw

/-! ### the Behera constructor -/

/-- With the range check on both sides (`errRange`), for ALL `uint` arguments the constructor
    never yields a control with more than one of grace / expire / error set, and rejects
    error codes above 8 -/
theorem C14_behera_ctor (grace expire error : Option Nat)
    (hg : ∀ u, grace = some u → u < 2^64) (he : ∀ u, expire = some u → u < 2^64) (hc : ∀ u, error = some u → u < 2^64)
    (ctl : Control) (h : newBehera true grace expire error = .ok ctl) :
    ∃ e g er, ctl = .behera e g er ∧ -1 ≤ er ∧ er ≤ 8 ∧
      ((e = -1 ∧ g = -1) ∨ (e = -1 ∧ er = -1) ∨ (g = -1 ∧ er = -1)) ∧
      (∀ u, error = some u → u ≤ 8 ∨ u = 2^64 - 1) := by
  unfold newBehera beheraCore at h
  generalize optInt grace = gv at h
  generalize optInt expire = ev at h
  generalize hcv : optInt error = cv at h
  by_cases c1 : gv ≠ -1 ∧ ev ≠ -1
  · rw [if_pos c1] at h; simp at h
  rw [if_neg c1] at h
  by_cases c2 : gv ≠ -1 ∧ cv ≠ -1
  · rw [if_pos c2] at h; simp at h
  rw [if_neg c2] at h
  by_cases c3 : ev ≠ -1 ∧ cv ≠ -1
  · rw [if_pos c3] at h; simp at h
  rw [if_neg c3] at h
  by_cases c4 : cv > 8 ∨ (true = true ∧ cv < -1)
  · rw [if_pos c4] at h; simp at h
  rw [if_neg c4] at h
  simp only [Outcome.ok.injEq] at h
  subst h
  simp at c4
  have hcr : -1 ≤ cv ∧ cv ≤ 8 := by omega
  have h8 : intToInt8 cv = cv := by
    unfold intToInt8
    simp only
    split <;> omega
  refine ⟨ev, gv, intToInt8 cv, rfl, by omega, by omega, ?_, ?_⟩
  · rw [h8]; omega
  · intro u hu
    have hu64 := hc u hu
    subst hu
    simp only [optInt, uintToInt] at hcv
    split at hcv <;> omega

/-- on the pinned tree (no lower bound) the overflowing error code is accepted as error 56 -/
theorem C14_behera_counterexample :
    newBehera false none none (some (2^63 + 56)) = .ok (.behera (-1) (-1) 56) := by decide

theorem C14_behera_current (grace expire error : Option Nat)
    (hg : ∀ u, grace = some u → u < 2^64) (he : ∀ u, expire = some u → u < 2^64) (hc : ∀ u, error = some u → u < 2^64)
    (ctl : Control) (h : newBehera Generated.beheraErrRange grace expire error = .ok ctl) :
    ∃ e g er, ctl = .behera e g er ∧ -1 ≤ er ∧ er ≤ 8 ∧
      ((e = -1 ∧ g = -1) ∨ (e = -1 ∧ er = -1) ∨ (g = -1 ∧ er = -1)) ∧
      (∀ u, error = some u → u ≤ 8 ∨ u = 2^64 - 1) := by
  have : Generated.beheraErrRange = true := by decide
  rw [this] at h
  exact C14_behera_ctor grace expire error hg he hc ctl h

/-- non-vacuity -/
example : (Control.paging 1000 [1, 2, 3]).WF ∧ (Control.behera (-1) 3 (-1)).WF ∧ (Control.vchuWarning (-7)).WF := by
  refine ⟨⟨by decide, by decide⟩, ?_, ?_⟩ <;> simp [Control.WF, Int64] <;> omega

end Gldap
