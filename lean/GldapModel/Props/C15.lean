import GldapModel.Generated.AccessTable
/-! # C15 - no data races inside gldap (the modelled synchronisation skeleton)

A race needs two goroutine instances about to access the same field of the same object, one of
them writing. `Access.no_race_under_common_lock` rules that out for accesses protected by a
common mutex; the per-field policy below says which discipline protects each field, and the
access table regenerated from the source on every run is checked against it by `decide`.
Partial: a lockset / confinement abstraction extracted syntactically; the Go memory model
itself is exercised only by the race detector runs of the harness. -/
namespace Access

/-- the discipline each field of conn / Server / Mux / ResponseWriter / Directory follows -/
def policy : String → Policy
  -- conn: identity and collaborators are fixed in newConn (disablePanicRecovery is set by Run before
  -- the goroutine exists); the net.Conn and its buffered reader / writer belong to the connection
  -- goroutine (StartTLS swaps them inline on that goroutine)
  | "conn.connID" | "conn.logger" | "conn.router" | "conn.shutdownCtx" | "conn.disablePanicRecovery" => .immutable
  | "conn.netConn" | "conn.reader" | "conn.writer" => .ownedBy 3
  | "conn.mu" | "conn.writerMu" | "conn.requestsWg" => .sync
  -- Server
  | "Server.listener" => .writerLocked "Server.mu" 2
  | "Server.listenerReady" => .lockedBy "Server.mu"
  | "Server.tlsConfig" => .ownedBy 2
  | "Server.router" | "Server.logger" | "Server.readTimeout" | "Server.writeTimeout" | "Server.onCloseHandler"
  | "Server.disablePanicRecovery" | "Server.shutdownCancel" | "Server.shutdownCtx" => .immutable
  | "Server.mu" | "Server.connWg" | "Server.connWgMu" => .sync
  -- Mux: routes are registered before Run (the property's premise)
  | "Mux.routes" | "Mux.defaultRoute" | "Mux.unbindRoute" => .immutable
  | "Mux.mu" => .sync
  -- ResponseWriter: set once in newResponseWriter
  | "ResponseWriter.writerMu" | "ResponseWriter.writer" | "ResponseWriter.logger" | "ResponseWriter.connID"
  | "ResponseWriter.requestID" => .immutable
  -- test directory: the mutable state is guarded by d.mu, the rest is fixed in Start
  | "Directory.users" | "Directory.groups" | "Directory.tokenGroups" | "Directory.allowAnonymousBind"
  | "Directory.controls" => .lockedBy "Directory.mu"
  | "Directory.mu" => .sync
  | "Directory.t" | "Directory.s" | "Directory.logger" | "Directory.port" | "Directory.host" | "Directory.useTLS"
  | "Directory.client" | "Directory.server" | "Directory.userDN" | "Directory.groupDN" => .immutable
  -- a field the policy does not know: fail closed
  | _ => .lockedBy "?"

/-- every access in the current source complies with its field's policy -/
theorem C15_table_ok : tableOK policy Gldap.Generated.accessTable = true := by decide

/-- hence every conflicting pair of accesses in the current source is justified: a common mutex,
    confinement to one goroutine, or a set-up write ordered before Run -/
theorem C15_current (a b : Row) (ha : a ∈ Gldap.Generated.accessTable) (hb : b ∈ Gldap.Generated.accessTable)
    (hc : conflicting a b = true) : justified policy a b = true :=
  justified_of_tableOK policy _ C15_table_ok a b ha hb hc

/-- the pre-fix test directory: handlers read `users` without the mutex that `SetUsers` holds -/
theorem C15_counterexample :
    tableOK policy [⟨"Directory.users", true, ["Directory.mu"], 5, "td.Directory.SetUsers"⟩,
                    ⟨"Directory.users", false, [], 4, "td.Directory.handleBind"⟩] = false := by decide

end Access
