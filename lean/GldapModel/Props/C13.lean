import GldapModel.Proofs.ConnLoopInv
import GldapModel.Generated.Facts
/-! # C13 - StartTLS upgrades a connection atomically and completely (the plumbing part) -/
namespace ConnLoop

/-- While the StartTLS handler runs (between `inline r` and its `inlinedone r`) the connection
    goroutine reads nothing and dispatches nothing: the handshake started by Request.StartTLS
    sees the client's next byte, whatever the handler's timing. -/
theorem C13_exclusive (F : Facts) (pre mid : List Ev) (r : Nat) (s : St)
    (h : run F init (pre ++ [.inline r] ++ mid) = some s)
    (hmid : Ev.inlinedone r ∉ mid ∧ Ev.recovered ∉ mid) : ∀ e ∈ mid, e.servesRequest = false := by
  rw [List.append_assoc] at h
  obtain ⟨m, h1, h2⟩ := run_append F pre ([.inline r] ++ mid) init s h
  simp only [List.singleton_append, run] at h2
  cases hs : step F m (.inline r) with
  | none => simp [hs] at h2
  | some m' =>
    simp [hs] at h2
    exact in_handler_run F mid m' s r (inline_enters F m m' r hs) h2 hmid.1 hmid.2

/-- the writer a request uses is created in the loop iteration that read it, i.e. after any
    swap performed by an earlier StartTLS handler; the swap itself happens on the connection
    goroutine while it is inside the inline handler -/
theorem C13_current_facts :
    Gldap.Generated.connFacts.startTLS = .inline ∧ Gldap.Generated.connFacts.writerPerIteration = true := by decide

theorem C13_current (pre mid : List Ev) (r : Nat) (s : St)
    (h : run Gldap.Generated.connFacts init (pre ++ [.inline r] ++ mid) = some s)
    (hmid : Ev.inlinedone r ∉ mid ∧ Ev.recovered ∉ mid) : ∀ e ∈ mid, e.servesRequest = false :=
  C13_exclusive _ pre mid r s h hmid

/-- why inline dispatch matters: dispatched to a goroutine, the loop reads on during the handler -/
theorem C13_counterexample :
    (run { goodFacts with startTLS := .goroutine } init [.start, .head 1, .read 1, .inline 1]) = none ∧
    (run goodFacts init [.start, .head 1, .read 1, .spawn 1, .reqStart 1, .head 2]).isSome = true := by decide

/-- non-vacuity: StartTLS as second request; the swap (`init`) happens inside the handler -/
example : (run goodFacts init [.init, .start, .head 1, .read 1, .spawn 1, .head 2, .read 2, .inline 2, .reqStart 1,
    .init, .inlinedone 2, .head 3]).map (fun s => (s.phase, s.writerGen)) = some (.reading 3, 2) := by decide

end ConnLoop
