import GldapModel.Proofs.ConnLoopInv
import GldapModel.Generated.Facts
/-! # C13 - StartTLS upgrades a connection atomically and completely (the plumbing part) -/
namespace ConnLoop

/-- While the StartTLS handler runs (between `inline r` and its `inlinedone r`) the connection
    goroutine reads nothing and dispatches nothing: the handshake started by Request.StartTLS
    sees the client's next byte, whatever the handler's timing. -/
theorem C13_exclusive (F : Facts) (pre mid : List Ev) (r : Nat) (s : St)
    (h : run F init (pre ++ [.inline r] ++ mid) = some s)
    (hmid : Ev.inlinedone r ∉ mid ∧ Ev.recovered ∉ mid) : ∀ e ∈ mid, e.servesRequest = false := by
  rw [List.append_assoc] at h
  obtain ⟨m, h1, h2⟩ := run_append F pre ([.inline r] ++ mid) init s h
  simp only [List.singleton_append, run] at h2
  cases hs : step F m (.inline r) with
  | none => simp [hs] at h2
  | some m' =>
    simp [hs] at h2
    exact in_handler_run F mid m' s r (inline_enters F m m' r hs) h2 hmid.1 hmid.2

/-- the writer a request uses is created in the loop iteration that read it, i.e. after any
    swap performed by an earlier StartTLS handler; the swap itself happens on the connection
    goroutine while it is inside the inline handler -/
theorem C13_current_facts :
    Gldap.Generated.connFacts.startTLS = .inline ∧ Gldap.Generated.connFacts.writerPerIteration = true := by decide

theorem C13_current (pre mid : List Ev) (r : Nat) (s : St)
    (h : run Gldap.Generated.connFacts init (pre ++ [.inline r] ++ mid) = some s)
    (hmid : Ev.inlinedone r ∉ mid ∧ Ev.recovered ∉ mid) : ∀ e ∈ mid, e.servesRequest = false :=
  C13_exclusive _ pre mid r s h hmid

/-- why inline dispatch matters: dispatched to a goroutine, the loop reads on during the handler -/
theorem C13_counterexample :
    (run { goodFacts with startTLS := .goroutine } init [.start, .head 1, .read 1, .inline 1]) = none ∧
    (run goodFacts init [.start, .head 1, .read 1, .spawn 1, .reqStart 1, .head 2]).isSome = true := by decide


/-! ### "completely": requests read after the upgrade answer through the upgraded writer -/

/-- the connection writer's generation never goes back -/
theorem writerGen_mono_step (F : Facts) (s s' : St) (e : Ev) (h : step F s e = some s') : s.writerGen ≤ s'.writerGen := by
  unfold step at h
  simp only at h
  repeat' split at h
  all_goals first
    | contradiction
    | (cases h; done)
    | (simp only [Option.some.injEq] at h; subst h; simp)

theorem writerGen_mono (F : Facts) (es : List Ev) (s s' : St) (h : run F s es = some s') : s.writerGen ≤ s'.writerGen := by
  induction es generalizing s with
  | nil => simp [run] at h; subst h; exact Nat.le_refl _
  | cons e es ih =>
    simp only [run] at h
    cases hs : step F s e with
    | none => simp [hs] at h
    | some s1 =>
      simp [hs] at h
      exact Nat.le_trans (writerGen_mono_step F s s1 e hs) (ih s1 h)

/-- a step only ever appends to the record of writers, and what it appends is the writer the
    connection has at that moment -/
theorem writers_step (F : Facts) (hF : F.writerPerIteration = true) (s s' : St) (e : Ev) (h : step F s e = some s') :
    s'.writers = s.writers ∨ ∃ r, e = .head r ∧ s'.writers = s.writers ++ [(r, s.writerGen)] := by
  unfold step at h
  simp only at h
  repeat' split at h
  all_goals first
    | contradiction
    | (cases h; done)
    | (simp only [Option.some.injEq] at h; subst h; left; rfl)
    | (simp only [Option.some.injEq] at h; subst h; right; exact ⟨_, rfl, by simp [writerGenFor, hF]⟩)

/-- every writer recorded during a run from state `s` wraps a generation at least `s.writerGen` -/
theorem writers_run (F : Facts) (hF : F.writerPerIteration = true) (es : List Ev) (s s' : St) (h : run F s es = some s') :
    ∃ added, s'.writers = s.writers ++ added ∧ ∀ p ∈ added, s.writerGen ≤ p.2 := by
  induction es generalizing s with
  | nil => simp [run] at h; subst h; exact ⟨[], by simp, by simp⟩
  | cons e es ih =>
    simp only [run] at h
    cases hs : step F s e with
    | none => simp [hs] at h
    | some s1 =>
      simp [hs] at h
      obtain ⟨added, h1, h2⟩ := ih s1 h
      have hm := writerGen_mono_step F s s1 e hs
      rcases writers_step F hF s s1 e hs with hw | ⟨r, _, hw⟩
      · exact ⟨added, by rw [h1, hw], fun p hp => Nat.le_trans hm (h2 p hp)⟩
      · refine ⟨(r, s.writerGen) :: added, by rw [h1, hw]; simp, ?_⟩
        intro p hp
        simp only [List.mem_cons] at hp
        rcases hp with rfl | hp
        · exact Nat.le_refl _
        · exact Nat.le_trans hm (h2 p hp)

/-- **After the upgrade every response goes through the upgraded writer.** Whatever happened
    before and during the StartTLS handler (which swaps the connection's reader and writer on
    the connection goroutine, event `init`), every request numbered after the handler returned
    (`inlinedone r`) gets a ResponseWriter that wraps the connection writer of a generation at
    least as new as the one installed by the swap - never the plaintext writer of before. -/
theorem C13_tunnel_writer (F : Facts) (hF : F.writerPerIteration = true) (pre post : List Ev) (r : Nat) (m s : St)
    (h1 : run F init (pre ++ [.inlinedone r]) = some m) (h2 : run F m post = some s) :
    ∃ added, s.writers = m.writers ++ added ∧ ∀ p ∈ added, m.writerGen ≤ p.2 :=
  writers_run F hF post m s h2

theorem C13_tunnel_writer_current (pre post : List Ev) (r : Nat) (m s : St)
    (h1 : run Gldap.Generated.connFacts init (pre ++ [.inlinedone r]) = some m) (h2 : run Gldap.Generated.connFacts m post = some s) :
    ∃ added, s.writers = m.writers ++ added ∧ ∀ p ∈ added, m.writerGen ≤ p.2 :=
  C13_tunnel_writer _ (by decide) pre post r m s h1 h2

/-- why the writer must be created inside the loop: created once when the loop is entered, a
    request read after the swap (generation 2) would still answer through generation 1 -/
theorem C13_counterexample_stale_writer :
    ((run { goodFacts with writerPerIteration := false } init
        [.init, .start, .head 1, .read 1, .inline 1, .init, .inlinedone 1, .head 2]).map (fun s => (s.writerGen, s.writers))) =
      some (2, [(1, 1), (2, 1)]) ∧
    ((run goodFacts init
        [.init, .start, .head 1, .read 1, .inline 1, .init, .inlinedone 1, .head 2]).map (fun s => (s.writerGen, s.writers))) =
      some (2, [(1, 1), (2, 2)]) := by decide

/-- non-vacuity: StartTLS as second request; the swap (`init`) happens inside the handler -/
example : (run goodFacts init [.init, .start, .head 1, .read 1, .spawn 1, .head 2, .read 2, .inline 2, .reqStart 1,
    .init, .inlinedone 2, .head 3]).map (fun s => (s.phase, s.writerGen)) = some (.reading 3, 2) := by decide

end ConnLoop
