import GldapModel.Gldap.Helpers
/-! request.go New*Response constructors, response_options.go, response.go setters and
    `packet()` methods, entry.go `EntryAttribute.encode`: from what a handler sets to the
    LDAPMessage tree that `ResponseWriter.Write` serialises. -/
namespace Gldap
open Ber
open Gldap.Generated

/-- response_options.go: the options a constructor may be given -/
inductive ROpt where
  | diag (s : Bytes) | matched (s : Bytes) | code (c : Int) | appCode (c : Int)
  | attrs (m : List (Bytes × List Bytes))
  deriving Repr, DecidableEq

structure ROpts where
  diag : Bytes
  matched : Bytes
  code : Option Int
  appCode : Option Int
  attrs : List (Bytes × List Bytes)
  deriving Repr, DecidableEq

def unusedStr : Bytes := [85, 110, 117, 115, 101, 100]   -- responseDefaults: "Unused"

def responseDefaults : ROpts := ⟨unusedStr, unusedStr, none, none, []⟩

def applyROpt (o : ROpts) : ROpt → ROpts
  | .diag s => { o with diag := s }
  | .matched s => { o with matched := s }
  | .code c => { o with code := some c }
  | .appCode c => { o with appCode := some c }
  | .attrs m => { o with attrs := m }

/-- `getResponseOpts`: later options override earlier ones -/
def getResponseOpts (opts : List ROpt) : ROpts := opts.foldl applyROpt responseDefaults

/-- Go's `int16(int)` -/
def toInt16 (i : Int) : Int := let m := i % 65536; if m < 32768 then m else m - 65536

inductive RKind where
  | general (appCode : Int) | bind | extended | searchDone | entry | modify
  deriving Repr, DecidableEq

/-- the response object a handler holds (all concrete response types, flattened) -/
structure Resp where
  kind : RKind
  messageID : Int
  code : Int                 -- already narrowed to int16
  diag : Bytes
  matched : Bytes
  controls : List Control
  entryDN : Bytes
  attrs : List EAttr
  deriving Repr, DecidableEq

def baseResp (kind : RKind) (mid : Int) : Resp := ⟨kind, mid, 0, [], [], [], [], []⟩

/-- `(*Request).NewResponse` -/
def newResponse (mid : Int) (opts : List ROpt) : Resp :=
  let o := getResponseOpts opts
  { baseResp (.general (o.appCode.getD ApplicationExtendedResponse)) mid with
    code := toInt16 (o.code.getD ResultUnwillingToPerform), diag := o.diag, matched := o.matched }

def codeOnly (kind : RKind) (mid : Int) (opts : List ROpt) : Resp :=
  let o := getResponseOpts opts
  { baseResp kind mid with code := match o.code with | some c => toInt16 c | none => 0 }

/-- `NewExtendedResponse` / `NewBindResponse` / `NewSearchDoneResponse`: only the code is used -/
def newExtendedResponse := codeOnly .extended
def newBindResponse := codeOnly .bind
def newSearchDoneResponse := codeOnly .searchDone

/-- `NewSearchResponseEntry(dn, opts)`; the attribute map is given in its iteration order -/
def newSearchResponseEntry (mid : Int) (dn : Bytes) (opts : List ROpt) : Resp :=
  let o := getResponseOpts opts
  { baseResp .entry mid with entryDN := dn, attrs := o.attrs.map (fun a => newEntryAttribute a.1 a.2) }

/-- the `GeneralResponse` inside a `ModifyResponse`: `NewResponse(WithApplicationCode(7),
    WithResponseCode(code), WithDiagnosticMessage(..), WithMatchedDN(..))` -/
def modifyResp (mid : Int) (code : Option Int) (diag matched : Bytes) : Resp :=
  ⟨.modify, mid, toInt16 (code.getD ResultUnwillingToPerform), diag, matched, [], [], []⟩

/-- `NewModifyResponse`: `*opts.withResponseCode` is the `modifyRespCode` site -/
def newModifyResponse (g : Guards) (mid : Int) (opts : List ROpt) : Outcome Resp :=
  let o := getResponseOpts opts
  match o.code with
  | none => if g.modifyRespCode then .ok (modifyResp mid none o.diag o.matched) else .panic
  | some c => .ok (modifyResp mid (some c) o.diag o.matched)

/-- setters a handler may call afterwards -/
inductive RSet where
  | code (c : Int) | diag (s : Bytes) | matched (s : Bytes)
  | controls (cs : List Control) | addAttr (name : Bytes) (values : List Bytes)
  deriving Repr, DecidableEq

/-- a setter applies only to the response types that have it -/
def applySet (r : Resp) : RSet → Resp
  | .code c => { r with code := toInt16 c }
  | .diag s => { r with diag := s }
  | .matched s => { r with matched := s }
  | .controls cs => if r.kind = .bind ∨ r.kind = .searchDone then { r with controls := cs } else r
  | .addAttr n vs => if r.kind = .entry then { r with attrs := r.attrs ++ [newEntryAttribute n vs] } else r

def applySets (r : Resp) (ss : List RSet) : Resp := ss.foldl applySet r

/-- `EntryAttribute.encode` -/
def encodeEAttr (a : EAttr) : Node :=
  seqNode [octetNode a.name, .cons 0 17 (a.values.map octetNode)]

/-- `beginResponse` + the LDAPResult children every result packet has -/
def resultNode (appTag : Nat) (r : Resp) : Node :=
  .cons 1 appTag [.prim 0 10 (encodeInteger r.code), octetNode r.matched, octetNode r.diag]

def withControls (kids : List Node) (cs : List Control) : List Node :=
  if cs.isEmpty then kids else kids ++ [encodeControls cs]

/-- Go's `ber.Tag(int)`: uint64 conversion -/
def tagOfInt (i : Int) : Nat := (i % 2^64).toNat

/-- the `packet()` method of each response type -/
def packetOf (r : Resp) : Node :=
  let idNode : Node := .prim 0 2 (encodeInteger r.messageID)
  match r.kind with
  | .extended => seqNode [idNode, resultNode ApplicationExtendedResponse r]
  | .bind => seqNode (withControls [idNode, resultNode ApplicationBindResponse r] r.controls)
  | .general app => seqNode [idNode, resultNode (tagOfInt app) r]
  | .modify => seqNode [idNode, resultNode (tagOfInt ApplicationModifyResponse) r]
  | .searchDone => seqNode (withControls [idNode, resultNode ApplicationSearchResultDone r] r.controls)
  | .entry => seqNode [idNode, .cons 1 ApplicationSearchResultEntry
        [octetNode r.entryDN, seqNode (r.attrs.map encodeEAttr)]]

/-- what `ResponseWriter.Write` puts into the buffered writer -/
def responseBytes (r : Resp) : Bytes := ser (packetOf r)

end Gldap
