import GldapModel.Gldap.Response
import GldapModel.Gldap.Packet
/-! mux.go / route.go: registration, route matching, `(*Mux).serve`. Handlers are abstract
    values `H`; `serve` returns the *list* of effects it performs, so that "exactly one" is a
    theorem and not a typing artefact. -/
namespace Gldap
open Ber
open Gldap.Generated

inductive RouteSpec where
  | bind
  | search (basedn filter : Bytes) (scope : Int)
  | extended (name : Bytes)
  | modify | add | delete
  deriving Repr, DecidableEq

structure Mux (H : Type) where
  routes : List (RouteSpec × H)
  dflt : Option H
  unbind : Option H

def Mux.empty {H} : Mux H := ⟨[], none, none⟩

/-- the registration calls: `Bind/Search/ExtendedOperation/Modify/Add/Delete` append,
    `DefaultRoute` / `Unbind` replace -/
inductive Reg (H : Type) where
  | route (s : RouteSpec) (h : H)
  | dflt (h : H)
  | unbind (h : H)

def Mux.register {H} (m : Mux H) : Reg H → Mux H
  | .route s h => { m with routes := m.routes ++ [(s, h)] }
  | .dflt h => { m with dflt := some h }
  | .unbind h => { m with unbind := some h }

def Mux.build {H} (rs : List (Reg H)) : Mux H := rs.foldl Mux.register Mux.empty

/-- `strings.EqualFold` restricted to ASCII -/
def asciiFold (b : UInt8) : UInt8 := if 65 ≤ b.toNat ∧ b.toNat ≤ 90 then (b.toNat + 32).toUInt8 else b
def equalFold (a b : Bytes) : Bool := a.map asciiFold == b.map asciiFold

/-- the `match` method of each route type against the decoded request -/
def matchesRoute : RouteSpec → Msg → Bool
  | .bind, .bind .. => true
  | .search basedn filter scope, .search _ b sc _ _ _ _ f _ _ =>
      (basedn.isEmpty || equalFold b basedn) && (filter.isEmpty || equalFold f filter) &&
      (scope == 0 || sc == scope)
  | .extended name, .extended _ n => n == name
  | .modify, .modify .. => true
  | .add, .add .. => true
  | .delete, .delete .. => true
  | _, _ => false

inductive Effect (H : Type) where
  | invoke (h : H)
  | refuse (id : Int) (tag : Nat) (code : Nat)
  deriving Repr, DecidableEq

def Msg.id : Msg → Int
  | .bind id .. => id | .search id .. => id | .extended id _ => id | .modify id .. => id
  | .add id .. => id | .delete id .. => id | .unbind id => id

/-- the route operation `newRequest` classifies a message as (route.go constants) -/
def Msg.routeOp : Msg → Bytes
  | .bind .. => bindRouteOperation | .search .. => searchRouteOperation
  | .extended .. => extendedRouteOperation | .modify .. => modifyRouteOperation
  | .add .. => addRouteOperation | .delete .. => deleteRouteOperation | .unbind .. => unbindRouteOperation

/-- the application code of gldap's own "no matching handler" answer: looked up by the
    request's route operation in the table extracted from the source (`none`: the source has no
    such table and always answers with an ExtendedResponse) -/
def refusalTag (table : Option (List (Bytes × Nat))) (m : Msg) : Nat :=
  match table with
  | none => ApplicationExtendedResponse
  | some t => match t.find? (fun e => e.1 == m.routeOp) with
    | some e => e.2
    | none => ApplicationExtendedResponse

/-- the `for _, r := range m.routes` loop with its early return -/
def serveLoop {H} : List (RouteSpec × H) → Msg → Option (List (Effect H))
  | [], _ => none
  | (s, h) :: rest, msg => if matchesRoute s msg then some [.invoke h] else serveLoop rest msg

/-- `(*Mux).serve` -/
def serve {H} (table : Option (List (Bytes × Nat))) (m : Mux H) (msg : Msg) : List (Effect H) :=
  match serveLoop m.routes msg with
  | some es => es
  | none =>
    match m.dflt with
    | some h => [.invoke h]
    | none => [.refuse msg.id (refusalTag table msg) ResultUnwillingToPerform]

end Gldap
