import GldapModel.Gldap.Control
/-! control.go: the `Encode` methods (as the tree that reaches the wire) and the Behera
    constructor with Go's `uint -> int -> int8 / int64` conversions. -/
namespace Gldap
open Ber
open Gldap.Generated

/-- `strconv.FormatInt(i, 10)` digits of a natural number -/
def decDigits (n : Nat) : Bytes :=
  if h : n < 10 then [(48 + n).toUInt8] else decDigits (n / 10) ++ [(48 + n % 10).toUInt8]
decreasing_by omega

/-- `strconv.FormatInt(i, 10)` -/
def formatInt (i : Int) : Bytes :=
  if i < 0 then 45 :: decDigits (-i).toNat else decDigits i.toNat

def octetNode (s : Bytes) : Node := .prim 0 4 s
def boolNode (b : Bool) : Node := .prim 0 1 (encodeInteger (if b then 1 else 0))   -- ber.NewBoolean
def seqNode (ks : List Node) : Node := .cons 0 16 ks

/-- the `Encode()` method of each control type, as the tree a peer reads from the wire
    (an OCTET STRING value packet with an appended child is, on the wire, a primitive whose
    content is the child's serialisation) -/
def encodeControl : Control → Node
  | .str oid crit v =>
      seqNode ([octetNode oid] ++ (if crit then [boolNode crit] else []) ++ (if v.isEmpty then [] else [octetNode v]))
  | .manageDsaIT crit => seqNode ([octetNode ControlTypeManageDsaIT] ++ (if crit then [boolNode crit] else []))
  | .paging size cookie =>
      seqNode [octetNode ControlTypePaging,
        octetNode (ser (seqNode [.prim 0 2 (encodeInteger size), octetNode cookie]))]
  | .behera expire grace error =>
      if grace ≥ 0 then
        seqNode [octetNode ControlTypeBeheraPasswordPolicy,
          octetNode (ser (seqNode [.cons 2 0 [.prim 2 1 (encodeInteger grace)]]))]
      else if expire ≥ 0 then
        seqNode [octetNode ControlTypeBeheraPasswordPolicy,
          octetNode (ser (seqNode [.cons 2 0 [.prim 2 0 (encodeInteger expire)]]))]
      else if error ≥ 0 then
        seqNode [octetNode ControlTypeBeheraPasswordPolicy,
          octetNode (ser (seqNode [.prim 2 1 (encodeInteger error)]))]
      else seqNode [octetNode ControlTypeBeheraPasswordPolicy]
  | .vchuMustChange => seqNode [octetNode ControlTypeVChuPasswordMustChange]
  | .vchuWarning e => seqNode [octetNode ControlTypeVChuPasswordWarning, octetNode (formatInt e)]
  | .msNotification => seqNode [octetNode ControlTypeMicrosoftNotification]
  | .msShowDeleted => seqNode [octetNode ControlTypeMicrosoftShowDeleted]
  | .msServerLinkTTL => seqNode [octetNode ControlTypeMicrosoftServerLinkTTL]

/-- response.go / control.go `encodeControls` -/
def encodeControls (cs : List Control) : Node := .cons 2 0 (cs.map encodeControl)

/-- Go's `int(uint)` on a 64-bit platform -/
def uintToInt (u : Nat) : Int := if u < 2^63 then u else (u : Int) - 2^64

/-- Go's `int8(int)` -/
def intToInt8 (i : Int) : Int := let m := i % 256; if m < 128 then m else m - 256

/-- an option argument as the constructor sees it: -1 when the option is not given -/
def optInt : Option Nat → Int
  | none => -1
  | some u => uintToInt u

/-- the `switch` of `NewControlBeheraPasswordPolicy` over the three `int` option fields -/
def beheraCore (errRange : Bool) (g e c : Int) : Outcome Control :=
  if g ≠ -1 ∧ e ≠ -1 then .err
  else if g ≠ -1 ∧ c ≠ -1 then .err
  else if e ≠ -1 ∧ c ≠ -1 then .err
  else if c > 8 ∨ (errRange = true ∧ c < -1) then .err
  else .ok (.behera e g (intToInt8 c))

/-- `NewControlBeheraPasswordPolicy(opts...)`; each option argument is a Go `uint` (`none` =
    option not given). `errRange` is the extracted fact "the error code is range-checked on
    both sides before narrowing". -/
def newBehera (errRange : Bool) (grace expire error : Option Nat) : Outcome Control :=
  beheraCore errRange (optInt grace) (optInt expire) (optInt error)

end Gldap
