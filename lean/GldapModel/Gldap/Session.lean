import GldapModel.Gldap.Mux
/-! # Session - one connection, end to end, as a function from the bytes the client sends to
    the frames the server writes

`conn.serveRequests` composed with everything it calls: `ber.ReadPacket` on the connection's
stream, `basicValidation`, `newRequest` (`serveFrame`), the Unbind / StartTLS / default cases
of the dispatch switch, `(*Mux).serve`, the handler (a *script* of `New*Response` constructor
calls with options, setter calls and one `ResponseWriter.Write` each), the built-in refusal,
`packet()` and the serialisation `Write` sends.

The model is *sequential*: it describes a connection whose client waits for the answers of a
request before it sends the next one (then the concurrent dispatch of conn.go is not
observable), and, for pipelining clients, the multiset of frames and the order of the frames
of each request (the interleaving itself is the subject of `Runtime.Writer`, C05). -/
namespace Gldap.Session
open Ber Gldap Gldap.Generated

/-- which `New*Response` constructor a handler calls -/
inductive Ctor where
  | general | bind | extended | done | entry (dn : Bytes) | modify
  deriving Repr, DecidableEq

/-- one response a handler produces: constructor, its options, then setters, then `Write` -/
structure RespSpec where
  ctor : Ctor
  opts : List ROpt
  sets : List RSet
  deriving Repr, DecidableEq

/-- the constructor call; `mid` is the message id of the request the handler was given -/
def construct (g : Guards) (mid : Int) (c : Ctor) (opts : List ROpt) : Outcome Resp :=
  match c with
  | .general => .ok (newResponse mid opts)
  | .bind => .ok (newBindResponse mid opts)
  | .extended => .ok (newExtendedResponse mid opts)
  | .done => .ok (newSearchDoneResponse mid opts)
  | .entry dn => .ok (newSearchResponseEntry mid dn opts)
  | .modify => newModifyResponse g mid opts

def build (g : Guards) (mid : Int) (s : RespSpec) : Outcome Resp :=
  match construct g mid s.ctor s.opts with
  | .ok r => .ok (applySets r s.sets)
  | .err => .err
  | .panic => .panic

/-- the responses a handler running script `sc` writes, in order, for a request with message
    id `mid`; a panicking constructor ends the handler (the panic is recovered on its
    goroutine), what was written before stays written -/
def runScript (g : Guards) (mid : Int) : List RespSpec → List Resp
  | [] => []
  | s :: rest =>
    match build g mid s with
    | .ok r => r :: runScript g mid rest
    | _ => []

/-- the configuration of a server: the route registrations, in order, the k-th registration's
    handler being `k`; and what each handler does -/
structure Cfg where
  regs : List (Reg Nat)
  /-- what handler `k` writes when it is given the decoded message -/
  script : Nat → Msg → List RespSpec

def noHandlerDiag : Bytes :=   -- "No matching handler found"
  [78, 111, 32, 109, 97, 116, 99, 104, 105, 110, 103, 32, 104, 97, 110, 100, 108, 101, 114, 32, 102, 111, 117, 110, 100]

/-- mux.go: the built-in answer when nothing matches -/
def refusal (id : Int) (tag code : Nat) : Resp :=
  newResponse id [.code code, .diag noHandlerDiag, .appCode tag]

def effectResps (g : Guards) (cfg : Cfg) (msg : Msg) : Effect Nat → List Resp
  | .invoke h => runScript g msg.id (cfg.script h msg)
  | .refuse id tag code => [refusal id tag code]

/-- every response written on the connection because of one decoded request (not an Unbind) -/
def respondR (table : Option (List (Bytes × Nat))) (g : Guards) (cfg : Cfg) (msg : Msg) : List Resp :=
  (serve table (Mux.build cfg.regs) msg).flatMap (effectResps g cfg msg)

/-- the optional unbind handler (conn.go calls it with the request and a writer) -/
def respondUnbindR (g : Guards) (cfg : Cfg) (mid : Int) : List Resp :=
  match (Mux.build cfg.regs).unbind with
  | some h => runScript g mid (cfg.script h (.unbind mid))
  | none => []

/-- ... as the frames `ResponseWriter.Write` sends -/
def respond (table : Option (List (Bytes × Nat))) (g : Guards) (cfg : Cfg) (msg : Msg) : List Bytes :=
  (respondR table g cfg msg).map responseBytes
def respondUnbind (g : Guards) (cfg : Cfg) (mid : Int) : List Bytes :=
  (respondUnbindR g cfg mid).map responseBytes

def _root_.Gldap.Msg.isUnbind : Msg → Bool
  | .unbind _ => true
  | _ => false

inductive Ending where
  | eof          -- the stream ended between two frames (or the frame budget ran out)
  | closed       -- a frame could not be read or decoded: the connection is closed, nothing is answered
  | unbind       -- an Unbind request was read
  | crashed      -- gldap's own decoding panicked (never, by C02, when the guards are present)
  deriving Repr, DecidableEq

/-- what is left of the stream after its first frame -/
def frameRest (env : Env) (bs : Bytes) : Bytes :=
  match readPacket env.ext bs with
  | some (_, r) => r
  | none => []

/-- `serveRequests`: frames written, in order, and how the read loop ended. `fuel` bounds the
    number of frames (any value above the number of frames in `bs` gives the same result). -/
def session (env : Env) (table : Option (List (Bytes × Nat))) (g : Guards) (cfg : Cfg) :
    Nat → Bytes → List Bytes × Ending
  | 0, _ => ([], .eof)
  | fuel + 1, bs =>
    if bs.isEmpty then ([], .eof)
    else match serveFrame env g bs with
      | .err => ([], .closed)
      | .panic => ([], .crashed)
      | .ok msg =>
        if msg.isUnbind then (respondUnbind g cfg msg.id, .unbind)
        else
          let r := session env table g cfg fuel (frameRest env bs)
          (respond table g cfg msg ++ r.1, r.2)

end Gldap.Session

namespace Gldap.Session
open Ber Gldap Gldap.Generated

/-- the requests the read loop decodes, in order, up to and including an Unbind -/
def sessionMsgs (env : Env) (g : Guards) : Nat → Bytes → List Msg
  | 0, _ => []
  | fuel + 1, bs =>
    if bs.isEmpty then []
    else match serveFrame env g bs with
      | .ok msg => if msg.isUnbind then [msg] else msg :: sessionMsgs env g fuel (frameRest env bs)
      | _ => []

/-- what the connection writes for one decoded request -/
def framesFor (table : Option (List (Bytes × Nat))) (g : Guards) (cfg : Cfg) (msg : Msg) : List Bytes :=
  if msg.isUnbind then respondUnbind g cfg msg.id else respond table g cfg msg

/-- the handler invocations a decoded request causes: (handler, message id) -/
def callsFor (table : Option (List (Bytes × Nat))) (cfg : Cfg) (msg : Msg) : List (Nat × Int) :=
  if msg.isUnbind then
    match (Mux.build cfg.regs).unbind with
    | some h => [(h, msg.id)]
    | none => []
  else (serve table (Mux.build cfg.regs) msg).filterMap fun
    | .invoke h => some (h, msg.id)
    | .refuse .. => none

end Gldap.Session
