import GldapModel.Gldap.Core
/-! # Search filters: go-ldap's `DecompileFilter` as gldap calls it

`packet.searchParmeters` hands the filter element of a search request to
`ldap.DecompileFilter` (go-ldap v3.4.6, filter.go) and delivers the string it returns to the
handler (`SearchMessage.Filter`); search routes compare that string with their `WithFilter`
criterion and the test directory matches entries against it. Until this file existed the
function was a parameter of the model (`Env.decompile`); here it is a definition, byte for byte:

* dispatch on the element's tag NUMBER only (class and primitive/constructed are not looked at);
* `packet.Data` of an element read from the wire is `Node.data` (content of a primitive,
  canonical re-serialisation of the children of a constructed element);
* every index out of range and every failed type assertion panics inside go-ldap and is turned
  into an error by its deferred `recover` - `none` here;
* `EscapeFilter` on assertion values (`( ) * \ NUL` and bytes above 0x7f become `\xx`);
* the `dnAttributes` flag of an extensible match is read with `child.Value.(bool)`. asn1-ber
  decodes values of universal class only, so off the wire that assertion always failed and
  gldap rejected every search whose filter used `:dn` (repaired by `decodeFilterDNAttributes`
  in packet.go, which decodes the flag first). `fixDN` says whether the source does that; it
  is extracted from the current source (`Generated.filterDNAttrsDecoded`).

`Spec`-side: `Filter` is RFC 4511's Filter CHOICE as a client means it, `encode` its BER
encoding (what go-ldap's `CompileFilter` puts on the wire), `render` its RFC 4515 string. -/
namespace Gldap.Filter
open Ber

/-- ldap.go `mustEscape` -/
def mustEscape (c : UInt8) : Bool :=
  decide (c.toNat > 0x7f) || c == 40 || c == 41 || c == 92 || c == 42 || c == 0

def hexDigit (n : Nat) : UInt8 := if n < 10 then (48 + n).toUInt8 else (87 + n).toUInt8

/-- ldap.go `EscapeFilter` -/
def escape : Bytes → Bytes
  | [] => []
  | c :: cs =>
    if mustEscape c then 92 :: hexDigit (c.toNat / 16) :: hexDigit (c.toNat % 16) :: escape cs
    else c :: escape cs

/-- the loop over `packet.Children[1].Children` of a substrings filter -/
def subLoop : Bool → List Node → Bytes
  | _, [] => []
  | first, c :: cs =>
    (if first && c.tag != 0 then [42] else []) ++ escape c.data ++ (if c.tag != 2 then [42] else [])
      ++ subLoop false cs

/-- `child.Value.(bool)` on the dnAttributes element, after gldap's `decodeFilterDNAttributes`
    when the source has it (`fixDN`): `none` = the assertion panics -/
def dnFlag (fixDN : Bool) (c : Node) : Option Bool :=
  match valueOf c with
  | .bool b => some b
  | .none => (match c.data with
      | [b] => if fixDN then some (b != 0) else none
      | _ => none)
  | _ => none

structure ExtAcc where
  attr : Bytes := []
  rule : Bytes := []
  value : Bytes := []
  dn : Bool := false

/-- the loop over the children of an extensible match -/
def extLoop (fixDN : Bool) : List Node → ExtAcc → Option ExtAcc
  | [], a => some a
  | c :: cs, a =>
    if c.tag = 1 then extLoop fixDN cs { a with rule := c.data }
    else if c.tag = 2 then extLoop fixDN cs { a with attr := c.data }
    else if c.tag = 3 then extLoop fixDN cs { a with value := c.data }
    else if c.tag = 4 then (dnFlag fixDN c).bind (fun b => extLoop fixDN cs { a with dn := b })
    else extLoop fixDN cs a

def extRender (a : ExtAcc) : Bytes :=
  a.attr ++ (if a.dn then [58, 100, 110] else []) ++ (if a.rule.isEmpty then [] else 58 :: a.rule) ++ [58, 61]
    ++ escape a.value

/-- `attr <op> escaped-value` of the four attribute-value assertions -/
def ava (kids : List Node) (op : Bytes) : Option Bytes :=
  match kids[0]?, kids[1]? with
  | some a, some v => some (a.data ++ op ++ escape v.data)
  | _, _ => none

/-- the cases of `DecompileFilter` that do not recurse; the result is what goes between the parentheses -/
def leaf (fixDN : Bool) (tag : Nat) (kids : List Node) (data : Bytes) : Option Bytes :=
  if tag = 3 then ava kids [61]
  else if tag = 4 then
    (match kids[0]?, kids[1]? with
     | some a, some subs => some (a.data ++ [61] ++ subLoop true subs.kids)
     | _, _ => none)
  else if tag = 5 then ava kids [62, 61]
  else if tag = 6 then ava kids [60, 61]
  else if tag = 7 then some (data ++ [61, 42])
  else if tag = 8 then ava kids [126, 61]
  else if tag = 9 then (extLoop fixDN kids {}).map extRender
  else some []

def paren (s : Bytes) : Bytes := 40 :: (s ++ [41])

mutual
/-- go-ldap `DecompileFilter` on an element read from the wire -/
def decompile (fixDN : Bool) : Node → Option Bytes
  | .prim _ t content =>
    if t = 0 then some (paren [38]) else if t = 1 then some (paren [124]) else if t = 2 then none
    else (leaf fixDN t [] content).map paren
  | .cons _ t kids =>
    if t = 0 then (decompileAll fixDN kids).map (fun s => paren (38 :: s))
    else if t = 1 then (decompileAll fixDN kids).map (fun s => paren (124 :: s))
    else if t = 2 then (decompileFirst fixDN kids).map (fun s => paren (33 :: s))
    else (leaf fixDN t kids (serAll kids)).map paren
/-- `DecompileFilter(packet.Children[0])` of a not-filter -/
def decompileFirst (fixDN : Bool) : List Node → Option Bytes
  | [] => none
  | k :: _ => decompile fixDN k
def decompileAll (fixDN : Bool) : List Node → Option Bytes
  | [] => some []
  | k :: ks =>
    match decompile fixDN k with
    | none => none
    | some a => (decompileAll fixDN ks).map (fun b => a ++ b)
end

/-! ## The client's side (RFC 4511 4.5.1, RFC 4515) -/

inductive Sub where
  | initial (v : Bytes) | any (v : Bytes) | final (v : Bytes)
  deriving Repr

inductive Filter where
  | and (fs : List Filter)
  | or (fs : List Filter)
  | not (f : Filter)
  | eq (attr value : Bytes)
  | substr (attr : Bytes) (subs : List Sub)
  | ge (attr value : Bytes)
  | le (attr value : Bytes)
  | present (attr : Bytes)
  | approx (attr value : Bytes)
  | ext (rule : Option Bytes) (type : Option Bytes) (value : Bytes) (dnAttributes : Bool)
  deriving Repr

def octet (s : Bytes) : Node := .prim 0 4 s

def encodeSub : Sub → Node
  | .initial v => .prim 2 0 v
  | .any v => .prim 2 1 v
  | .final v => .prim 2 2 v

/-- MatchingRuleAssertion ::= SEQUENCE { matchingRule [1] OPTIONAL, type [2] OPTIONAL, matchValue [3],
    dnAttributes [4] BOOLEAN DEFAULT FALSE }; `tt` is the octet the client uses for TRUE -/
def encodeExt (tt : UInt8) (rule type : Option Bytes) (value : Bytes) (dn : Bool) : List Node :=
  (match rule with | some r => [.prim 2 1 r] | none => []) ++
  (match type with | some t => [.prim 2 2 t] | none => []) ++
  [.prim 2 3 value] ++ (if dn then [.prim 2 4 [tt]] else [])

mutual
/-- Filter ::= CHOICE { and [0], or [1], not [2], equalityMatch [3], substrings [4], greaterOrEqual [5],
    lessOrEqual [6], present [7], approxMatch [8], extensibleMatch [9] } -/
def encode (tt : UInt8) : Filter → Node
  | .and fs => .cons 2 0 (encodeAll tt fs)
  | .or fs => .cons 2 1 (encodeAll tt fs)
  | .not f => .cons 2 2 [encode tt f]
  | .eq a v => .cons 2 3 [octet a, octet v]
  | .substr a subs => .cons 2 4 [octet a, .cons 0 16 (subs.map encodeSub)]
  | .ge a v => .cons 2 5 [octet a, octet v]
  | .le a v => .cons 2 6 [octet a, octet v]
  | .present a => .prim 2 7 a
  | .approx a v => .cons 2 8 [octet a, octet v]
  | .ext rule type value dn => .cons 2 9 (encodeExt tt rule type value dn)
def encodeAll (tt : UInt8) : List Filter → List Node
  | [] => []
  | f :: fs => encode tt f :: encodeAll tt fs
end

/-- RFC 4515 substring assertion: `initial*any*...*final` -/
def renderSubs : Bool → List Sub → Bytes
  | _, [] => []
  | _, .initial v :: ss => escape v ++ [42] ++ renderSubs false ss
  | first, .any v :: ss => (if first then [42] else []) ++ escape v ++ [42] ++ renderSubs false ss
  | first, .final v :: ss => (if first then [42] else []) ++ escape v ++ renderSubs false ss

mutual
/-- the RFC 4515 string of a filter (attribute descriptions verbatim, assertion values escaped) -/
def render : Filter → Bytes
  | .and fs => paren (38 :: renderAll fs)
  | .or fs => paren (124 :: renderAll fs)
  | .not f => paren (33 :: render f)
  | .eq a v => paren (a ++ [61] ++ escape v)
  | .substr a subs => paren (a ++ [61] ++ renderSubs true subs)
  | .ge a v => paren (a ++ [62, 61] ++ escape v)
  | .le a v => paren (a ++ [60, 61] ++ escape v)
  | .present a => paren (a ++ [61, 42])
  | .approx a v => paren (a ++ [126, 61] ++ escape v)
  | .ext rule type value dn =>
      paren (type.getD [] ++ (if dn then [58, 100, 110] else []) ++
        (match rule with | some r => (if r.isEmpty then [] else 58 :: r) | none => []) ++ [58, 61] ++ escape value)
def renderAll : List Filter → Bytes
  | [] => []
  | f :: fs => render f ++ renderAll fs
end

end Gldap.Filter
