import GldapModel.Gldap.Control
/-! packet.go / add.go / message.go / request.go: from the BER tree of one LDAPMessage to the
    typed message a handler receives. Child positions and application tags come from
    `Generated.Consts` (regenerated from the source on every run). -/
namespace Gldap
open Ber
open Gldap.Generated

structure Change where
  op : Int
  type : Bytes
  vals : List Bytes
  deriving Repr, DecidableEq

structure Attr where
  type : Bytes
  vals : List Bytes
  deriving Repr, DecidableEq

inductive Msg where
  | bind (id : Int) (user pass : Bytes) (controls : List Control)
  | search (id : Int) (baseDN : Bytes) (scope deref size time : Int) (typesOnly : Bool)
      (filter : Bytes) (attrs : List Bytes) (controls : List Control)
  | extended (id : Int) (name : Bytes)
  | modify (id : Int) (dn : Bytes) (changes : List Change) (controls : List Control)
  | add (id : Int) (dn : Bytes) (attrs : List Attr) (controls : List Control)
  | delete (id : Int) (dn : Bytes) (controls : List Control)
  | unbind (id : Int)
  deriving Repr, DecidableEq

/-- `packet.basicValidation` -/
def basicValidation (p : Node) : Bool :=
  isKind p 0 true (some 16) && p.kids.length ≥ basicValidation_childMinChildren

/-- `packet.requestMessageID` -/
def requestMessageID (p : Node) : Outcome Int :=
  if !basicValidation p then .err else
  match p.kids[requestMessageID_childMessageID]? with
  | none => .err
  | some idp =>
    if !isKind idp 0 false (some 2) then .err else
    match valueOf idp with
    | .int i => .ok i
    | _ => .err

/-- `packet.assertApplicationRequest` -/
def assertApplicationRequest (p : Node) : Bool :=
  match p.kids[assertApplicationRequest_childApplicationRequest]? with
  | none => false
  | some r =>
    r.cls == 1 &&
    (r.constructed || r.tag == ApplicationDelRequest || r.tag == ApplicationUnbindRequest)

/-- `packet.requestPacket`, including the LDAPv3 gate for Bind -/
def requestPacket (g : Guards) (p : Node) : Outcome Node :=
  if !basicValidation p then .err else
  if !assertApplicationRequest p then .err else
  match p.kids[requestPacket_childApplicationRequest]? with
  | none => .err
  | some r =>
    if r.tag == ApplicationBindRequest then
      if !childIs r requestPacket_childVersionNumber 0 false (some 2) then .err else
      match r.kids[requestPacket_childVersionNumber]? with
      | none => .err
      | some v =>
        match valueOf v with
        | .int ver =>
          if ver != 3 then
            -- fmt.Errorf(..., requestPacket.Value.(int64)): evaluated eagerly
            (match valueOf r with | .int _ => .err | _ => fail g.bindVersionMsg)
          else .ok r
        | _ => .err
    else .ok r

inductive ReqType where
  | bind | search | extended | modify | add | delete | unbind
  deriving Repr, DecidableEq

/-- `packet.requestType` -/
def requestType (g : Guards) (p : Node) : Outcome ReqType := do
  let r ← requestPacket g p
  if r.tag == ApplicationBindRequest then pure .bind
  else if r.tag == ApplicationSearchRequest then pure .search
  else if r.tag == ApplicationExtendedRequest then pure .extended
  else if r.tag == ApplicationModifyRequest then pure .modify
  else if r.tag == ApplicationAddRequest then pure .add
  else if r.tag == ApplicationDelRequest then pure .delete
  else if r.tag == ApplicationUnbindRequest then pure .unbind
  else .err

/-- `packet.controlPacket` + the decode loop every *Parameters function repeats -/
def controlsOf (env : Env) (g : Guards) (p : Node) : Outcome (List Control) :=
  if p.kids.length ≤ 2 then .ok [] else
  match p.kids[controlPacket_childControl]? with
  | none => .ok []
  | some cp => if !(cp.cls == 2 && cp.constructed) then .err else decodeControls env g cp.kids

/-- `packet.simpleBindParameters` -/
def simpleBindParameters (env : Env) (g : Guards) (p : Node) : Outcome (Bytes × Bytes × List Control) := do
  let r ← requestPacket g p
  if !childIs r simpleBindParameters_childBindUserName 0 false (some 4) then .err else
  match r.kids[simpleBindParameters_childBindUserName]? with
  | none => .err
  | some u =>
    if r.kids.length > 3 then .ok (u.data, [], []) else
    if !childIs r simpleBindParameters_childBindPassword 2 false (some 0) then .err else
    match r.kids[simpleBindParameters_childBindPassword]? with
    | none => .err
    | some pw => do
      let cs ← controlsOf env g p
      pure (u.data, pw.data, cs)

/-- the value of an asserted universal primitive child as int64 -/
def intChild (r : Node) (i : Nat) (tag : Nat) : Outcome Int :=
  if !childIs r i 0 false (some tag) then .err else
  match r.kids[i]? with
  | none => .err
  | some k => match valueOf k with | .int v => .ok v | _ => .err

def boolChild (r : Node) (i : Nat) : Outcome Bool :=
  if !childIs r i 0 false (some 1) then .err else
  match r.kids[i]? with
  | none => .err
  | some k => match valueOf k with | .bool v => .ok v | _ => .err

def octetChild (r : Node) (i : Nat) : Outcome Bytes :=
  if !childIs r i 0 false (some 4) then .err else
  match r.kids[i]? with
  | none => .err
  | some k => .ok k.data

/-- every child must be a universal primitive OCTET STRING; yields their `Data` -/
def octetList : List Node → Outcome (List Bytes)
  | [] => .ok []
  | k :: ks => if !isKind k 0 false (some 4) then .err else do
      let rest ← octetList ks
      pure (k.data :: rest)

structure SearchParams where
  baseDN : Bytes
  scope : Int
  deref : Int
  size : Int
  time : Int
  typesOnly : Bool
  filter : Bytes
  attrs : List Bytes
  controls : List Control

/-- `packet.searchParmeters` -/
def searchParameters (env : Env) (g : Guards) (p : Node) : Outcome SearchParams := do
  let r ← requestPacket g p
  if r.tag != ApplicationSearchRequest then .err else
  let baseDN ← octetChild r searchParmeters_childBaseDN
  let scope ← intChild r searchParmeters_childScope 10
  let deref ← intChild r searchParmeters_childDerefAliases 10
  let size ← intChild r searchParmeters_childSizeLimit 2
  let time ← intChild r searchParmeters_childTimeLimit 2
  let typesOnly ← boolChild r searchParmeters_childTypesOnly
  match r.kids[searchParmeters_childFilter]? with
  | none => .err
  | some f =>
    match env.decompile f with
    | none => .err
    | some filter =>
      match r.kids[searchParmeters_childAttributes]? with
      | none => pure ⟨baseDN, scope, deref, size, time, typesOnly, filter, [], []⟩
      | some ap =>
        if !isKind ap 0 true (some 16) then .err else do
        let attrs ← octetList ap.kids
        let cs ← controlsOf env g p
        pure ⟨baseDN, scope, deref, size, time, typesOnly, filter, attrs, cs⟩

/-- the values loop of `packet.modifyParameters`: a constructed child is the SET OF values and
    yields one BER-encoded element per value; anything else yields its `Data` -/
def modValues (v : Node) : List Bytes :=
  if v.constructed then v.kids.map ser else [v.data]

/-- one element of the changes sequence in `packet.modifyParameters` -/
def decodeChange (c : Node) : Outcome Change :=
  if !isKind c 0 true (some 16) then .err else do
  let op ← intChild c modifyParameters_childOperation 10
  if !childIs c modifyParameters_childModification 0 true (some 16) then .err else
  match c.kids[modifyParameters_childModification]? with
  | none => .err
  | some m => do
    let ty ← octetChild m modifyParameters_childModificationType
    if m.kids.length < modifyParameters_childModificationValues + 1 then .err else
    pure ⟨op, ty, (m.kids.drop 1).flatMap modValues⟩

def decodeChanges : List Node → Outcome (List Change)
  | [] => .ok []
  | c :: cs => do let x ← decodeChange c; let xs ← decodeChanges cs; pure (x :: xs)

/-- `packet.modifyParameters` -/
def modifyParameters (env : Env) (g : Guards) (p : Node) : Outcome (Bytes × List Change × List Control) := do
  let r ← requestPacket g p
  if r.tag != ApplicationModifyRequest then .err else
  let dn ← octetChild r modifyParameters_childDN
  if !childIs r modifyParameters_childChanges 0 true (some 16) then .err else
  match r.kids[modifyParameters_childChanges]? with
  | none => .err
  | some cp => do
    let changes ← decodeChanges cp.kids
    let cs ← controlsOf env g p
    pure (dn, changes, cs)

/-- add.go `decodeAttribute` -/
def decodeAttribute (a : Node) : Outcome Attr :=
  if !isKind a 0 true (some 16) then .err else do
  let ty ← octetChild a decodeAttribute_childType
  if !childIs a decodeAttribute_childVals 0 true (some 17) then .err else
  match a.kids[decodeAttribute_childVals]? with
  | none => .err
  | some vp => do
    let vals ← octetList vp.kids
    pure ⟨ty, vals⟩

def decodeAttributes : List Node → Outcome (List Attr)
  | [] => .ok []
  | a :: as => do let x ← decodeAttribute a; let xs ← decodeAttributes as; pure (x :: xs)

/-- `packet.addParameters` -/
def addParameters (env : Env) (g : Guards) (p : Node) : Outcome (Bytes × List Attr × List Control) := do
  let r ← requestPacket g p
  if r.tag != ApplicationAddRequest then .err else
  let dn ← octetChild r addParameters_childDN
  if !childIs r addParameters_childAttributes 0 true (some 16) then .err else
  match r.kids[addParameters_childAttributes]? with
  | none => .err
  | some ap => do
    let attrs ← decodeAttributes ap.kids
    let cs ← controlsOf env g p
    pure (dn, attrs, cs)

/-- `packet.deleteParameters` -/
def deleteParameters (env : Env) (g : Guards) (p : Node) : Outcome (Bytes × List Control) := do
  let r ← requestPacket g p
  if r.tag != ApplicationDelRequest then .err else
  let cs ← controlsOf env g p
  pure (r.data, cs)

/-- `packet.extendedOperationName` -/
def extendedOperationName (g : Guards) (p : Node) : Outcome Bytes := do
  let r ← requestPacket g p
  if r.tag != ApplicationExtendedRequest then .err else
  if !childIs r extendedOperationName_childExtendedOperationName 2 false (some 0) then .err else
  match r.kids[extendedOperationName_childExtendedOperationName]? with
  | none => .err
  | some k => .ok k.data

/-- message.go `newMessage` -/
def newMessage (env : Env) (g : Guards) (p : Node) : Outcome Msg := do
  let ty ← requestType g p
  let id ← requestMessageID p
  match ty with
  | .unbind => pure (.unbind id)
  | .bind => do
    let (u, pw, cs) ← simpleBindParameters env g p
    pure (.bind id u pw cs)
  | .search => do
    let s ← searchParameters env g p
    pure (.search id s.baseDN s.scope s.deref s.size s.time s.typesOnly s.filter s.attrs s.controls)
  | .extended => do
    let n ← extendedOperationName g p
    pure (.extended id n)
  | .modify => do
    let (dn, chs, cs) ← modifyParameters env g p
    pure (.modify id dn chs cs)
  | .add => do
    let (dn, attrs, cs) ← addParameters env g p
    pure (.add id dn attrs cs)
  | .delete => do
    let (dn, cs) ← deleteParameters env g p
    pure (.delete id dn cs)

/-- conn.go `readPacket` + `readRequest` on one frame: ber.ReadPacket, basicValidation, newRequest -/
def serveFrame (env : Env) (g : Guards) (bs : Bytes) : Outcome Msg :=
  match readPacket env.ext bs with
  | none => .err
  | some (p, _) => if !basicValidation p then .err else newMessage env g p

end Gldap
