import GldapModel.Gldap.ControlEncode
/-! request.go `ConvertString` / `readLength`, sid.go, entry.go: the exported helpers. -/
namespace Gldap
open Ber

/-- Go's int64 accumulation `length64 <<= 8; length64 |= b` over the given bytes -/
def accInt64 (bs : Bytes) : Int :=
  let u : Nat := beNat bs % 2^64
  if u < 2^63 then (u : Int) else (u : Int) - 2^64

/-- request.go `readLength`: returns (length, bytes read). Unchecked `bytes[0]` / `bytes[read]`
    are the `readLenBounds` site. -/
def readLength (g : Guards) (bs : Bytes) : Outcome (Int × Nat) :=
  match bs with
  | [] => fail g.readLenBounds
  | b :: rest =>
    if b.toNat == 255 then .err
    else if b.toNat == 128 then .ok (-1, 1)
    else if b.toNat < 128 then .ok (b.toNat, 1)
    else
      let k := b.toNat - 128
      if k > 8 then .err
      else if rest.length < k then fail g.readLenBounds
      else .ok (accInt64 (rest.take k), 1 + k)

/-- one element of `ConvertString` -/
def convertOne (g : Guards) (s : Bytes) : Outcome Bytes :=
  match s with
  | [] => fail g.convertEmpty
  | t :: rest =>
    if t.toNat == 4 || t.toNat == 27 then do
      let (_, read) ← readLength g rest
      pure (rest.drop read)
    else .err

/-- request.go `ConvertString` -/
def convertString (g : Guards) : List Bytes → Outcome (List Bytes)
  | [] => .ok []
  | s :: ss => do
    let x ← convertOne g s
    let xs ← convertString g ss
    pure (x :: xs)

/-! ### sid.go -/

/-- `SIDBytes(revision, identifierAuthority)`: revision, sub-authority count 0, three big-endian
    uint16 parts of which only the last is non-zero -/
def sidBytes (revision : Nat) (authority : Nat) : Bytes :=
  [revision.toUInt8, 0, 0, 0, 0, 0, (authority / 256).toUInt8, (authority % 256).toUInt8]

def leNat : Bytes → Nat
  | [] => 0
  | b :: bs => b.toNat + 256 * leNat bs

def subAuthorities : Nat → Bytes → Option (List Nat)
  | 0, _ => some []
  | n+1, bs => if bs.length < 4 then none else
      (subAuthorities n (bs.drop 4)).map (fun l => leNat (bs.take 4) :: l)

def dash : UInt8 := 45

/-- `SIDBytesToString`: `none` is the error return; it has no panicking path -/
def sidToString (b : Bytes) : Option Bytes :=
  match b with
  | rev :: cnt :: a0 :: a1 :: a2 :: a3 :: a4 :: a5 :: rest =>
    let auth := beNat [a0, a1, a2, a3, a4, a5]
    match subAuthorities cnt.toNat rest with
    | none => none
    | some subs =>
      some ([83, dash] ++ decDigits rev.toNat ++ [dash] ++ decDigits auth ++
        subs.flatMap (fun s => dash :: decDigits s))
  | _ => none

/-! ### entry.go -/

structure EAttr where
  name : Bytes
  values : List Bytes
  byteValues : List Bytes
  deriving Repr, DecidableEq

def newEntryAttribute (name : Bytes) (values : List Bytes) : EAttr := ⟨name, values, values⟩
def EAttr.addValue (e : EAttr) (vs : List Bytes) : EAttr := ⟨e.name, e.values ++ vs, e.byteValues ++ vs⟩

/-- Go's string `<` : byte-wise lexicographic -/
def bytesLe : Bytes → Bytes → Bool
  | [], _ => true
  | _ :: _, [] => false
  | a :: as, b :: bs => if a.toNat < b.toNat then true else if b.toNat < a.toNat then false else bytesLe as bs

/-- `NewEntry(dn, attributes)`: the map arrives in an arbitrary iteration order; keys are sorted -/
def newEntry (dn : Bytes) (attrs : List (Bytes × List Bytes)) : Bytes × List EAttr :=
  (dn, (attrs.mergeSort (fun a b => bytesLe a.1 b.1)).map (fun a => newEntryAttribute a.1 a.2))

end Gldap
