import GldapModel.Ber.Basic
/-! server.go `validateAddrPort` (and `last`): what `Run` does to the address string before it
    hands it to `net.Listen`. The three library verdicts it consults (`netip.ParseAddr`,
    `net.DefaultResolver.LookupHost`, `net.ParseIP`) are parameters. -/
namespace Gldap.Addr
open Ber

structure AddrEnv where
  parseAddr : Bytes → Bool    -- netip.ParseAddr succeeds
  resolves : Bytes → Bool     -- LookupHost returns at least one address within its deadline
  parseIP : Bytes → Bool      -- net.ParseIP returns non-nil

/-- `last(s, b)`: index of the rightmost `b` -/
def lastIdx (b : UInt8) : Bytes → Option Nat
  | [] => none
  | x :: xs =>
    match lastIdx b xs with
    | some i => some (i + 1)
    | none => if x == b then some 0 else none

def colon : UInt8 := 58
def lbr : UInt8 := 91
def rbr : UInt8 := 93

/-- `strings.Trim(s, "[]")` -/
def trimBrackets (s : Bytes) : Bytes :=
  ((s.dropWhile (fun c => c == lbr || c == rbr)).reverse.dropWhile (fun c => c == lbr || c == rbr)).reverse

def loopback6 : Bytes := [58, 58, 49]   -- "::1"

/-- `validateAddrPort`; `none` = an error is returned -/
def validateAddrPort (env : AddrEnv) (a : Bytes) : Option Bytes :=
  match lastIdx colon a with
  | none => none
  | some i =>
    let host := a.take i
    let port := a.drop (i + 1)
    if port.isEmpty then none
    else if host.isEmpty then some (colon :: port)
    else if a.head? == some lbr && a.getLast? == some rbr then none
    else if host.head? == some lbr then
      if !host.contains rbr then none
      else if !env.parseAddr (trimBrackets host) then none
      else some (host ++ colon :: port)
    else if env.resolves host then
      if host == loopback6 then some (lbr :: host ++ rbr :: colon :: port) else some (host ++ colon :: port)
    else match lastIdx colon host with
      | some _ => if !env.parseAddr host then none else some (lbr :: host ++ rbr :: colon :: port)
      | none => if !env.parseIP host then none else some (host ++ colon :: port)

end Gldap.Addr
