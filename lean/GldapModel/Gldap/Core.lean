import GldapModel.Ber.Parse
import GldapModel.Ber.Int
/-! Shared vocabulary of the gldap model: three-valued outcomes (`ok | err | panic`), the
    dynamic `Packet.Value`, `packet.assert`, guard flags. Go strings are `Bytes`. -/
namespace Gldap
open Ber

inductive Outcome (α : Type) where
  | ok (a : α) | err | panic
  deriving Repr, DecidableEq

instance : Monad Outcome where
  pure := .ok
  bind x f := match x with | .ok a => f a | .err => .err | .panic => .panic

def NoPanic {α} (x : Outcome α) : Prop := x ≠ .panic

@[simp] theorem np_ok {α} (a : α) : NoPanic (Outcome.ok a) := by simp [NoPanic]
@[simp] theorem np_pure {α} (a : α) : NoPanic (pure a : Outcome α) := by simp [NoPanic, pure]
@[simp] theorem np_err {α} : NoPanic (Outcome.err : Outcome α) := by simp [NoPanic]
theorem np_bind {α β} {x : Outcome α} {f : α → Outcome β} (hx : NoPanic x) (hf : ∀ a, NoPanic (f a)) :
    NoPanic (x >>= f) := by
  cases x with
  | ok a => exact hf a
  | err => simp [NoPanic, bind]
  | panic => exact absurd rfl hx

/-- an unguarded site panics, a guarded one returns an error -/
def fail (guarded : Bool) {α} : Outcome α := if guarded then .err else .panic
theorem np_fail {α} {b : Bool} (h : b = true) : NoPanic (fail b : Outcome α) := by simp [NoPanic, fail, h]
theorem fail_unguarded {α} : (fail false : Outcome α) = .panic := rfl

inductive Val where
  | none | bool (b : Bool) | int (i : Int) | str (s : Bytes) | other
  deriving Repr, DecidableEq

/-- `ber.ParseInt64` with the error ignored, as `readPacket` does for Integer/Enumerated/Boolean -/
def parseIntLoose (c : Bytes) : Int := (parseInt64 c).getD 0

/-- what `ber.readPacket` leaves in `Packet.Value` -/
def valueOf : Node → Val
  | .prim 0 1 c => .bool (parseIntLoose c != 0)
  | .prim 0 2 c => .int (parseIntLoose c)
  | .prim 0 10 c => .int (parseIntLoose c)
  | .prim 0 4 c => .str c
  | .prim 0 12 c => .str c        -- UTF8String (validated by the reader)
  | .prim 0 19 c => .str c        -- PrintableString
  | .prim 0 22 c => .str c        -- IA5String
  | .prim 0 9 _ => .other         -- Real (float64)
  | .prim 0 24 _ => .other        -- GeneralizedTime (time.Time)
  | _ => .none

/-- `packet.assert(cl, ty, withTag?)` on the node itself -/
def isKind (n : Node) (cls : Nat) (constructed : Bool) (tag : Option Nat) : Bool :=
  n.cls == cls && n.constructed == constructed && (match tag with | none => true | some t => n.tag == t)

/-- `packet.assert(cl, ty, withTag?, withAssertChild(i))` -/
def childIs (n : Node) (i : Nat) (cls : Nat) (constructed : Bool) (tag : Option Nat) : Bool :=
  match n.kids[i]? with
  | none => false
  | some k => isKind k cls constructed tag

/-- Per-site guard flags of the decode path and of the exported helpers: `true` when the Go
    source checks before it asserts / indexes / dereferences. Regenerated from the source. -/
structure Guards where
  bindVersionMsg : Bool     -- packet.go  requestPacket: no unchecked `.Value.(int64)` in the version error
  ctrlType : Bool           -- control.go decodeControl: Children[0].Value.(string) checked
  ctrlCrit : Bool           -- control.go decodeControl: Children[1].Value.(bool) checked (3-child case)
  pagingShape : Bool        -- control.go decodeControl: value.Children[0].Children[0/1] length-checked
  pagingSize : Bool         -- control.go decodeControl: .Value.(int64) checked
  beheraWarn : Bool         -- control.go decodeControl: child.Children[0] length-checked
  ctrlValue : Bool          -- control.go decodeControl: value.Value.(string) checked
  convertEmpty : Bool       -- request.go ConvertString: len(data) checked before data[0]
  readLenBounds : Bool      -- request.go readLength: bounds checked before bytes[0] / bytes[read]
  modifyRespCode : Bool     -- request.go NewModifyResponse: nil response code defaulted
  deriving Repr, DecidableEq

def Guards.decodeAll (g : Guards) : Bool :=
  g.bindVersionMsg && g.ctrlType && g.ctrlCrit && g.pagingShape && g.pagingSize && g.beheraWarn && g.ctrlValue

def Guards.helpersAll (g : Guards) : Bool :=
  g.convertEmpty && g.readLenBounds && g.modifyRespCode

def allGuards : Guards := ⟨true, true, true, true, true, true, true, true, true, true⟩
def noGuards : Guards := ⟨false, false, false, false, false, false, false, false, false, false⟩

end Gldap
