import GldapModel.Gldap.Core
import GldapModel.Generated.Consts
/-! control.go `decodeControl`, clause by clause. Each unchecked assertion / index of the Go
    source is a `fail g.<site>` branch. -/
namespace Gldap
open Ber
open Gldap.Generated

/-- behaviour of third-party code the decoder calls, as parameters -/
structure Env where
  /-- asn1-ber `ParseReal` / `ParseGeneralizedTime` accept this content (tag 9 / 24) -/
  ext : Nat → Bytes → Bool
  /-- go-ldap `DecompileFilter` on the filter node (it recovers its own panics) -/
  decompile : Node → Option Bytes

inductive Control where
  | str (oid : Bytes) (crit : Bool) (value : Bytes)
  | manageDsaIT (crit : Bool)
  | paging (size : Nat) (cookie : Bytes)
  | behera (expire grace error : Int)
  | vchuMustChange
  | vchuWarning (expire : Int)
  | msNotification | msShowDeleted | msServerLinkTTL
  deriving Repr, DecidableEq

def digitStep (acc : Nat) (d : UInt8) : Option Nat :=
  if 48 ≤ d.toNat ∧ d.toNat ≤ 57 then some (acc * 10 + (d.toNat - 48)) else none

def parseDigits : List UInt8 → Option Nat
  | [] => none
  | ds => ds.foldlM digitStep 0

def int64Range (v : Int) : Option Int := if -(2^63) ≤ v ∧ v < 2^63 then some v else none

/-- `strconv.ParseInt(s, 10, 64)` -/
def parseDecimal (s : Bytes) : Option Int :=
  match s with
  | [] => none
  | c :: rest =>
    if c.toNat = 45 then (parseDigits rest).bind (fun n => int64Range (-(n : Int)))
    else if c.toNat = 43 then (parseDigits rest).bind (fun n => int64Range (n : Int))
    else (parseDigits (c :: rest)).bind (fun n => int64Range (n : Int))

/-- children of a control value after gldap's "re-parse the octet string" step
    (`if value.Value != nil { DecodePacketErr(value.Data.Bytes()); ...; value.AppendChild(..) }`) -/
def valueChildren (env : Env) (v : Node) : Outcome (List Node) :=
  if valueOf v != .none then
    match readPacket env.ext v.data with
    | some (n, _) => .ok (v.kids ++ [n])
    | none => .err
  else .ok v.kids

/-- Go's `uint32(int64)` -/
def wrap32 (i : Int) : Nat := (i % 4294967296).toNat
/-- Go's `int8(byte)` -/
def toInt8 (b : Nat) : Int := if b < 128 then b else (b : Int) - 256

def beheraLoop (g : Guards) : List Node → (Int × Int × Int) → Outcome (Int × Int × Int)
  | [], acc => .ok acc
  | child :: rest, (expire, grace, error) =>
    if child.tag == 0 then
      match child.kids[0]? with
      | none => fail g.beheraWarn
      | some wp =>
        match parseInt64 wp.data with
        | none => .err
        | some val =>
          if wp.tag == 0 then beheraLoop g rest (val, grace, error)
          else if wp.tag == 1 then beheraLoop g rest (expire, val, error)
          else beheraLoop g rest (expire, grace, error)
    else if child.tag == 1 then
      match child.data with
      | [b] => if b.toNat > 8 then .err else beheraLoop g rest (expire, grace, toInt8 b.toNat)
      | _ => .err
    else beheraLoop g rest (expire, grace, error)

/-- `packet.Children[0].Value.(string)` -/
def ctrlTypeOf (g : Guards) (k : Node) : Outcome Bytes :=
  match valueOf k with | .str s => .ok s | _ => fail g.ctrlType

/-- the `switch len(packet.Children)` header of `decodeControl` -/
def ctrlHeader (g : Guards) (n : Node) : Outcome (Bytes × Bool × Option Node) :=
  match n.kids with
  | [] => .err
  | [t] => do let ty ← ctrlTypeOf g t; pure (ty, false, none)
  | [t, x] => do
      let ty ← ctrlTypeOf g t
      match valueOf x with
      | .bool b => pure (ty, b, none)
      | _ => pure (ty, false, some x)
  | [t, c, v] => do
      let ty ← ctrlTypeOf g t
      match valueOf c with
      | .bool b => pure (ty, b, some v)
      | _ => fail g.ctrlCrit
  | _ => .err

def decodePaging (env : Env) (g : Guards) (value : Option Node) : Outcome Control :=
  match value with
  | none => pure (.paging 0 [])
  | some v => do
    let kids ← valueChildren env v
    match kids with
    | [] => .err
    | seq :: _ =>
      match seq.kids[0]?, seq.kids[1]? with
      | some sz, some ck =>
        match valueOf sz with
        | .int i => pure (.paging (wrap32 i) ck.data)
        | _ => fail g.pagingSize
      | _, _ => fail g.pagingShape

def decodeBehera (env : Env) (g : Guards) (value : Option Node) : Outcome Control :=
  match value with
  | none => pure (.behera (-1) (-1) (-1))
  | some v => do
    let kids ← valueChildren env v
    match kids with
    | [] => .err
    | seq :: _ => do
      let (e, gr, er) ← beheraLoop g seq.kids (-1, -1, -1)
      pure (.behera e gr er)

def decodeVChuWarning (value : Option Node) : Outcome Control :=
  match value with
  | none => pure (.vchuWarning (-1))
  | some v => match parseDecimal v.data with
    | some i => pure (.vchuWarning i)
    | none => .err

def decodeGeneric (g : Guards) (ty : Bytes) (crit : Bool) (value : Option Node) : Outcome Control :=
  match value with
  | none => pure (.str ty crit [])
  | some v => match valueOf v with
    | .str s => pure (.str ty crit s)
    | _ => fail g.ctrlValue

/-- the `switch ControlType` of `decodeControl` -/
def ctrlDispatch (env : Env) (g : Guards) (ty : Bytes) (crit : Bool) (value : Option Node) : Outcome Control :=
  if ty = ControlTypeManageDsaIT then pure (.manageDsaIT crit)
  else if ty = ControlTypePaging then decodePaging env g value
  else if ty = ControlTypeBeheraPasswordPolicy then decodeBehera env g value
  else if ty = ControlTypeVChuPasswordMustChange then pure .vchuMustChange
  else if ty = ControlTypeVChuPasswordWarning then decodeVChuWarning value
  else if ty = ControlTypeMicrosoftNotification then pure .msNotification
  else if ty = ControlTypeMicrosoftShowDeleted then pure .msShowDeleted
  else if ty = ControlTypeMicrosoftServerLinkTTL then pure .msServerLinkTTL
  else decodeGeneric g ty crit value

/-- control.go `decodeControl` -/
def decodeControl (env : Env) (g : Guards) (n : Node) : Outcome Control := do
  let (ty, crit, value) ← ctrlHeader g n
  ctrlDispatch env g ty crit value

def decodeControls (env : Env) (g : Guards) : List Node → Outcome (List Control)
  | [] => .ok []
  | c :: cs => do let x ← decodeControl env g c; let xs ← decodeControls env g cs; pure (x :: xs)

end Gldap
